//! Compile-only stand-in for `color-eyre` under kani-compiler.
//! Re-exports `eyre` and offers a no-op `install()`; no harness reaches error reporting.
pub use eyre;
pub use eyre::{Report, Result};
pub fn install() -> eyre::Result<()> {
    Ok(())
}
