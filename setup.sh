#!/bin/sh
# Builds the dependency cache used by every check (offline, from the cargo registry on disk).
# Idempotent; a check also works without it (it then compiles the dependencies itself).
set -e
cd "$(dirname "$0")"
export CARGO_NET_OFFLINE=true
S=$(mktemp -d /tmp/verif-setup-XXXXXX)
trap 'rm -rf "$S"' EXIT
rsync -a --exclude /target --exclude .git /repo/ "$S/"
printf '\n[patch.crates-io]\ncolor-eyre = { path = "%s/shims/color-eyre" }\n' "$(pwd)" >> "$S/Cargo.toml"
cat >> "$S/lsp4spl/src/main.rs" <<'EOR'
#[cfg(kani)]
mod __verif_setup {
    #[kani::proof]
    fn setup_probe() {
        let x: u8 = kani::any();
        assert!(x as u16 <= 255);
    }
}
EOR
mkdir -p .cache
(cd "$S/lsp4spl" && cargo kani --harness setup_probe --target-dir "$S/kt" >/dev/null 2>"$S/err.log") || { tail -30 "$S/err.log"; exit 1; }
rm -rf .cache/kani-target
mv "$S/kt" .cache/kani-target
echo "setup ok: $(du -sh .cache/kani-target | cut -f1) dependency cache"
