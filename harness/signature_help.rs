// Harnesses for lsp4spl/src/features/signature_help.rs (property C14: active-parameter clause and
// choice of the enclosing call).  Appended as `#[cfg(kani)] mod __verif { use super::*; ... }`;
// get_active_param, find_call_stmt, find_call_stmt_in_stmt are the REAL private fns.
//
// Statement clause: "marks as active the parameter whose index is the number of commas between the
// opening parenthesis and the cursor".  The token slice handed to get_active_param is the call
// statement `name ( args ) ;`, so every comma in it lies after the opening parenthesis.

use spl_frontend::tokens::IntResult;

fn kind(k: u8) -> TokenType {
    match k % 7 {
        0 => TokenType::Comma,
        1 => TokenType::LParen,
        2 => TokenType::RParen,
        3 => TokenType::Semic,
        4 => TokenType::LBracket,
        5 => TokenType::RBracket,
        _ => TokenType::Int(IntResult::Int(7)),
    }
}

fn one_param() -> Vec<ParameterInformation> {
    vec![ParameterInformation {
        label: ParameterLabel::Simple(String::new()),
        documentation: None,
    }]
}

#[kani::proof]
#[kani::unwind(6)]
fn c14_active_q() {
    const N: usize = 4;
    let kinds: [u8; N] = kani::any();
    let mut toks: Vec<Token> = Vec::with_capacity(N);
    let mut i = 0;
    while i < N {
        toks.push(Token::new(kind(kinds[i]), i..i + 1));
        i += 1;
    }
    let cursor: usize = kani::any();
    kani::assume(cursor <= N + 2);
    let has_params: bool = kani::any();
    let params = if has_params { one_param() } else { Vec::new() };
    let got = get_active_param(&params, &toks, &cursor);
    let mut commas = 0u32;
    let mut i = 0;
    while i < N {
        if i < cursor && kinds[i] % 7 == 0 {
            commas += 1;
        }
        i += 1;
    }
    kani::cover!(has_params && commas == 2 && cursor < N, "two commas before a cursor inside the call");
    kani::cover!(has_params && cursor < N && kinds[cursor] % 7 == 0, "cursor exactly on a comma");
    kani::cover!(!has_params, "callee without parameters");
    if has_params {
        assert!(got == Some(commas), "C14 active parameter != number of commas before the cursor");
    } else {
        assert!(got.is_none(), "C14 active parameter must be None for a parameterless callee");
    }
    std::mem::forget(toks);
    std::mem::forget(params);
}

/// thorough: tokens with symbolic widths and gaps (whitespace between tokens), more of them
#[kani::proof]
#[kani::unwind(9)]
fn c14_active_t() {
    const N: usize = 7;
    let kinds: [u8; N] = kani::any();
    let gaps: [u8; N] = kani::any();
    let widths: [u8; N] = kani::any();
    let mut starts = [0usize; N];
    let mut toks: Vec<Token> = Vec::with_capacity(N);
    let mut pos = 0usize;
    let mut i = 0;
    while i < N {
        kani::assume(gaps[i] <= 2 && widths[i] >= 1 && widths[i] <= 3);
        pos += gaps[i] as usize;
        starts[i] = pos;
        let end = pos + widths[i] as usize;
        toks.push(Token::new(kind(kinds[i]), pos..end));
        pos = end;
        i += 1;
    }
    let cursor: usize = kani::any();
    kani::assume(cursor <= pos + 2);
    let params = one_param();
    let got = get_active_param(&params, &toks, &cursor);
    let mut commas = 0u32;
    let mut i = 0;
    while i < N {
        if starts[i] < cursor && kinds[i] % 7 == 0 {
            commas += 1;
        }
        i += 1;
    }
    kani::cover!(commas == 3 && cursor < pos, "three commas before a cursor inside the call");
    kani::cover!(cursor > 0 && cursor < pos && gaps[1] == 2 && cursor == starts[1] - 1, "cursor in whitespace between tokens");
    assert!(got == Some(commas), "C14 active parameter != number of commas before the cursor");
    std::mem::forget(toks);
    std::mem::forget(params);
}

// ---------------------------------------------------------------------------
// Choice of the enclosing call under nesting: the REAL find_call_stmt / find_call_stmt_in_stmt on a
// block whose statement is  if (..) call | while (..) call | if (..) ; else call   (three harnesses
// through find_call_stmt_in_stmt) and on a procedure whose body statement is a call (one harness
// through find_call_stmt)
// with symbolic Reference offsets and call lengths (a three-call tree did not finish in 20 min); tokens are adjacent one-byte tokens, so a call
// whose Reference chain sums to token index t and that is n tokens long covers text [t, t+n).
// Asserted: if the cursor lies inside exactly one call, that call is returned together with the
// accumulated offset of its Reference chain (which signature_help() then uses to slice the tokens);
// if it lies in none, nothing is returned.
// ---------------------------------------------------------------------------
use spl_frontend::ast::{AstInfo, BlockStatement, Identifier, IfStatement, WhileStatement};

fn call(len: usize) -> CallStatement {
    CallStatement {
        name: Identifier::new(String::new(), 0..1),
        arguments: Vec::new(),
        info: AstInfo::new(0..len),
    }
}

fn toks8() -> std::mem::ManuallyDrop<[Token; 8]> {
    std::mem::ManuallyDrop::new([
        Token::new(TokenType::Semic, 0..1), Token::new(TokenType::Semic, 1..2), Token::new(TokenType::Semic, 2..3),
        Token::new(TokenType::Semic, 3..4), Token::new(TokenType::Semic, 4..5), Token::new(TokenType::Semic, 5..6),
        Token::new(TokenType::Semic, 6..7), Token::new(TokenType::Eof, 7..7),
    ])
}

use spl_frontend::ast::ProcedureDeclaration as PD;

fn proc_with(stmt: Statement, a: usize) -> std::mem::ManuallyDrop<PD> {
    std::mem::ManuallyDrop::new(PD {
        doc: Vec::new(),
        name: None,
        parameters: Vec::new(),
        variable_declarations: Vec::new(),
        statements: vec![Reference::new(stmt, a)],
        info: AstInfo::new(0..1),
    })
}

/// statement at token `base` + a (base = accumulated offset of the enclosing References), call at +b
fn enclosing(shape: u8) {
    let toks = toks8();
    let (base, a, b, n): (usize, usize, usize, usize) = (kani::any(), kani::any(), kani::any(), kani::any());
    kani::assume(base <= 2 && a <= 2 && b <= 2 && n >= 1 && n <= 2);
    let s = base + a + b;
    kani::assume(s + n <= 7);
    let cursor: usize = kani::any();
    kani::assume(cursor <= 8);
    let inner = Box::new(Reference::new(Statement::Call(call(n)), b));
    let stmt = match shape {
        0 => Statement::If(IfStatement { condition: None, if_branch: Some(inner), else_branch: None, info: AstInfo::new(0..1) }),
        1 => Statement::While(WhileStatement { condition: None, statement: Some(inner), info: AstInfo::new(0..1) }),
        _ => Statement::If(IfStatement { condition: None, if_branch: None, else_branch: Some(inner), info: AstInfo::new(0..1) }),
    };
    let tree = std::mem::ManuallyDrop::new(Statement::Block(BlockStatement {
        statements: vec![Reference::new(stmt, a)],
        info: AstInfo::new(0..1),
    }));
    let inside = s <= cursor && cursor < s + n;
    kani::cover!(inside && base > 0 && a > 0 && b > 0, "cursor in the nested call, all offsets non-zero");
    kani::cover!(!inside && cursor < 7, "cursor outside the call");
    let got = find_call_stmt_in_stmt(&tree, &cursor, base, &toks[..]);
    match got {
        Some((c, off)) => {
            assert!(inside, "C14 a call is reported although the cursor is not inside it");
            assert!(off == s, "C14 accumulated Reference offset of the enclosing call is wrong");
            assert!(c.info.range.len() == n);
        }
        None => assert!(!inside, "C14 the call containing the cursor is not found"),
    }
}

fn toks13() -> std::mem::ManuallyDrop<[Token; 13]> {
    std::mem::ManuallyDrop::new([
        Token::new(TokenType::Semic, 0..1), Token::new(TokenType::Semic, 1..2), Token::new(TokenType::Semic, 2..3),
        Token::new(TokenType::Semic, 3..4), Token::new(TokenType::Semic, 4..5), Token::new(TokenType::Semic, 5..6),
        Token::new(TokenType::Semic, 6..7), Token::new(TokenType::Semic, 7..8), Token::new(TokenType::Semic, 8..9),
        Token::new(TokenType::Semic, 9..10), Token::new(TokenType::Semic, 10..11), Token::new(TokenType::Semic, 11..12),
        Token::new(TokenType::Eof, 12..12),
    ])
}

/// thorough: larger offsets (<= 3 each), longer calls (1..3), 12 tokens
fn enclosing_t(shape: u8) {
    let toks = toks13();
    let (base, a, b, n): (usize, usize, usize, usize) = (kani::any(), kani::any(), kani::any(), kani::any());
    kani::assume(base <= 3 && a <= 3 && b <= 3 && n >= 1 && n <= 3);
    let s = base + a + b;
    kani::assume(s + n <= 12);
    let cursor: usize = kani::any();
    kani::assume(cursor <= 13);
    let inner = Box::new(Reference::new(Statement::Call(call(n)), b));
    let stmt = match shape {
        0 => Statement::If(IfStatement { condition: None, if_branch: Some(inner), else_branch: None, info: AstInfo::new(0..1) }),
        1 => Statement::While(WhileStatement { condition: None, statement: Some(inner), info: AstInfo::new(0..1) }),
        _ => Statement::If(IfStatement { condition: None, if_branch: None, else_branch: Some(inner), info: AstInfo::new(0..1) }),
    };
    let tree = std::mem::ManuallyDrop::new(Statement::Block(BlockStatement {
        statements: vec![Reference::new(stmt, a)],
        info: AstInfo::new(0..1),
    }));
    let inside = s <= cursor && cursor < s + n;
    kani::cover!(inside && base == 3 && a == 3 && b == 3 && n == 3, "largest offsets and call length");
    let got = find_call_stmt_in_stmt(&tree, &cursor, base, &toks[..]);
    match got {
        Some((c, off)) => {
            assert!(inside, "C14 a call is reported although the cursor is not inside it");
            assert!(off == s, "C14 accumulated Reference offset of the enclosing call is wrong");
            assert!(c.info.range.len() == n);
        }
        None => assert!(!inside, "C14 the call containing the cursor is not found"),
    }
}

#[kani::proof]
#[kani::unwind(3)]
fn c14_enclosing_call_if_t() {
    enclosing_t(0)
}

#[kani::proof]
#[kani::unwind(3)]
fn c14_enclosing_call_while_t() {
    enclosing_t(1)
}

#[kani::proof]
#[kani::unwind(3)]
fn c14_enclosing_call_else_t() {
    enclosing_t(2)
}

#[kani::proof]
#[kani::unwind(3)]
fn c14_enclosing_call_if() {
    enclosing(0)
}

#[kani::proof]
#[kani::unwind(3)]
fn c14_enclosing_call_while() {
    enclosing(1)
}

#[kani::proof]
#[kani::unwind(3)]
fn c14_enclosing_call_else() {
    enclosing(2)
}

/// the procedure level: find_call_stmt on a procedure that starts at token `base` (> 0 when it is
/// not the first global declaration) whose body is a call at +a.  (One more nesting level through
/// find_call_stmt exhausted 24 GB; deeper nesting is decided by the three harnesses above.)
#[kani::proof]
#[kani::unwind(2)]
fn c14_enclosing_call_proc() {
    let toks = toks8();
    let (base, a, n): (usize, usize, usize) = (kani::any(), kani::any(), kani::any());
    kani::assume(base <= 3 && a <= 3 && n >= 1 && n <= 2);
    let s = base + a;
    kani::assume(s + n <= 7);
    let cursor: usize = kani::any();
    kani::assume(cursor <= 8);
    let pd = proc_with(Statement::Call(call(n)), a);
    let inside = s <= cursor && cursor < s + n;
    kani::cover!(inside && base > 0 && a > 0, "cursor in a call of a procedure that is not first in the file");
    let got = find_call_stmt(&pd, &cursor, base, &toks[..]);
    match got {
        Some((c, off)) => {
            assert!(inside, "C14 a call is reported although the cursor is not inside it");
            assert!(off == s, "C14 accumulated Reference offset of the enclosing call is wrong");
            assert!(c.info.range.len() == n);
        }
        None => assert!(!inside, "C14 the call containing the cursor is not found"),
    }
}

#[kani::proof]
#[kani::unwind(6)]
fn c14_twin_must_fail() {
    let kinds: [u8; 2] = kani::any();
    let toks = vec![Token::new(kind(kinds[0]), 0..1), Token::new(kind(kinds[1]), 1..2)];
    let cursor: usize = kani::any();
    kani::assume(cursor <= 3);
    let params = one_param();
    let got = get_active_param(&params, &toks, &cursor);
    std::mem::forget(toks);
    std::mem::forget(params);
    assert!(got.is_none(), "twin: reachable end of harness (expected to FAIL)");
}
