// Harnesses for lsp4spl/src/features/signature_help.rs (property C14, active-parameter clause).
// Appended as `#[cfg(kani)] mod __verif { use super::*; ... }`; get_active_param is the REAL private fn.
//
// Statement clause: "marks as active the parameter whose index is the number of commas between the
// opening parenthesis and the cursor".  The token slice handed to get_active_param is the call
// statement `name ( args ) ;`, so every comma in it lies after the opening parenthesis.

use spl_frontend::tokens::IntResult;

fn kind(k: u8) -> TokenType {
    match k % 5 {
        0 => TokenType::Comma,
        1 => TokenType::LParen,
        2 => TokenType::RParen,
        3 => TokenType::Semic,
        _ => TokenType::Int(IntResult::Int(7)),
    }
}

fn one_param() -> Vec<ParameterInformation> {
    vec![ParameterInformation {
        label: ParameterLabel::Simple(String::new()),
        documentation: None,
    }]
}

#[kani::proof]
#[kani::unwind(6)]
fn c14_active_q() {
    const N: usize = 4;
    let kinds: [u8; N] = kani::any();
    let mut toks: Vec<Token> = Vec::with_capacity(N);
    let mut i = 0;
    while i < N {
        toks.push(Token::new(kind(kinds[i]), i..i + 1));
        i += 1;
    }
    let cursor: usize = kani::any();
    kani::assume(cursor <= N + 2);
    let has_params: bool = kani::any();
    let params = if has_params { one_param() } else { Vec::new() };
    let got = get_active_param(&params, &toks, &cursor);
    let mut commas = 0u32;
    let mut i = 0;
    while i < N {
        if i < cursor && kinds[i] % 5 == 0 {
            commas += 1;
        }
        i += 1;
    }
    kani::cover!(has_params && commas == 2 && cursor < N, "two commas before a cursor inside the call");
    kani::cover!(has_params && cursor < N && kinds[cursor] % 5 == 0, "cursor exactly on a comma");
    kani::cover!(!has_params, "callee without parameters");
    if has_params {
        assert!(got == Some(commas), "C14 active parameter != number of commas before the cursor");
    } else {
        assert!(got.is_none(), "C14 active parameter must be None for a parameterless callee");
    }
    std::mem::forget(toks);
    std::mem::forget(params);
}

/// thorough: tokens with symbolic widths and gaps (whitespace between tokens), more of them
#[kani::proof]
#[kani::unwind(9)]
fn c14_active_t() {
    const N: usize = 7;
    let kinds: [u8; N] = kani::any();
    let gaps: [u8; N] = kani::any();
    let widths: [u8; N] = kani::any();
    let mut starts = [0usize; N];
    let mut toks: Vec<Token> = Vec::with_capacity(N);
    let mut pos = 0usize;
    let mut i = 0;
    while i < N {
        kani::assume(gaps[i] <= 2 && widths[i] >= 1 && widths[i] <= 3);
        pos += gaps[i] as usize;
        starts[i] = pos;
        let end = pos + widths[i] as usize;
        toks.push(Token::new(kind(kinds[i]), pos..end));
        pos = end;
        i += 1;
    }
    let cursor: usize = kani::any();
    kani::assume(cursor <= pos + 2);
    let params = one_param();
    let got = get_active_param(&params, &toks, &cursor);
    let mut commas = 0u32;
    let mut i = 0;
    while i < N {
        if starts[i] < cursor && kinds[i] % 5 == 0 {
            commas += 1;
        }
        i += 1;
    }
    kani::cover!(commas == 3 && cursor < pos, "three commas before a cursor inside the call");
    kani::cover!(cursor > 0 && cursor < pos && gaps[1] == 2 && cursor == starts[1] - 1, "cursor in whitespace between tokens");
    assert!(got == Some(commas), "C14 active parameter != number of commas before the cursor");
    std::mem::forget(toks);
    std::mem::forget(params);
}

#[kani::proof]
#[kani::unwind(6)]
fn c14_twin_must_fail() {
    let kinds: [u8; 2] = kani::any();
    let toks = vec![Token::new(kind(kinds[0]), 0..1), Token::new(kind(kinds[1]), 1..2)];
    let cursor: usize = kani::any();
    kani::assume(cursor <= 3);
    let params = one_param();
    let got = get_active_param(&params, &toks, &cursor);
    std::mem::forget(toks);
    std::mem::forget(params);
    assert!(got.is_none(), "twin: reachable end of harness (expected to FAIL)");
}
