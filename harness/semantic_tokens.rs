// Harnesses for lsp4spl/src/features/semantic_tokens.rs (property C15: well-formedness and
// lexical-class clauses).  Appended as `#[cfg(kani)] mod __verif { use super::*; ... }`;
// collect_error, collect_type_dec, collect_proc_dec, map_token, create_semantic_token are the REAL
// private fns; as_position is the real one from document.rs.  Oracle helpers are shared with the
// C08 harness module.
//
// Decided here:
//   S1-chain  (any valid UTF-8 text of bounded length, two tokens on symbolic char-boundary ranges)
//       the deltas produced by map_token/create_semantic_token for two consecutive classified
//       tokens decode to the LSP positions (UTF-16 columns) of both token starts; no u32 underflow
//   S2  `length` is the UTF-16 length of the token's text (asserted in every S1 harness)
//   S1-collect / S1-typedec / S1-procdec  (CONCRETE 13-byte text, one token of symbolic kind and
//       range per declaration, two consecutive declarations sharing `previous_token_pos` - what
//       semantic_tokens() does across global declarations) the stream emitted by the real
//       collect_error / collect_type_dec / collect_proc_dec (empty symbol table) contains exactly
//       the tokens that carry a class and decodes to their LSP positions
//   S3  keyword -> KEYWORD, Int/Hex/Char -> NUMBER, Comment -> COMMENT (index into the announced
//       legend TOKEN_TYPES), every other kind -> no token from the lexical mapping; identifiers in
//       type declarations -> TYPE
// Binding kinds of resolved identifiers / declaration modifier need a populated symbol table: outside.

use crate::document::__verif::{is_boundary, ref_position, sym_text, u16_units};
use spl_frontend::ast::Identifier;
use spl_frontend::tokens::IntResult;

#[derive(Clone, Copy, PartialEq)]
enum Class {
    Comment,
    Keyword,
    Number,
    Nothing,
}

fn kind(k: u8) -> (TokenType, Class) {
    match k % 12 {
        0 => (TokenType::If, Class::Keyword),
        1 => (TokenType::Int(IntResult::Int(1)), Class::Number),
        2 => (TokenType::Hex(IntResult::Int(1)), Class::Number),
        3 => (TokenType::Char('a'), Class::Number),
        4 => (TokenType::Comment(String::new()), Class::Comment),
        5 => (TokenType::Semic, Class::Nothing),
        6 => (TokenType::Ident(String::new()), Class::Nothing),
        7 => (TokenType::Var, Class::Keyword),
        8 => (TokenType::Unknown(String::new()), Class::Nothing),
        9 => (TokenType::Eof, Class::Nothing),
        10 => (TokenType::Proc, Class::Keyword),
        _ => (TokenType::Assign, Class::Nothing),
    }
}

fn legend_name(idx: u32) -> &'static str {
    // the legend announced in `initialize` is TOKEN_TYPES, in this order
    if (idx as usize) < TOKEN_TYPES.len() {
        match idx {
            _ if TOKEN_TYPES[idx as usize] == lsp_types::SemanticTokenType::COMMENT => "comment",
            _ if TOKEN_TYPES[idx as usize] == lsp_types::SemanticTokenType::KEYWORD => "keyword",
            _ if TOKEN_TYPES[idx as usize] == lsp_types::SemanticTokenType::NUMBER => "number",
            _ => "other",
        }
    } else {
        "out of legend"
    }
}

fn utf16_len(text: &str, s: usize, e: usize) -> u32 {
    let b = text.as_bytes();
    let mut n = 0u32;
    let mut i = s;
    while i < e {
        n += u16_units(b[i]);
        i += 1;
    }
    n
}

/// kinds used in the chain harness (every kind is decided separately by c15_s3_all_kinds)
fn chain_kind(k: u8) -> (TokenType, bool) {
    match k % 4 {
        0 => (TokenType::If, true),
        1 => (TokenType::Int(IntResult::Int(1)), true),
        2 => (TokenType::Comment(String::new()), true),
        _ => (TokenType::Semic, false),
    }
}

fn decode(line: &mut u32, ch: &mut u32, st: &SemanticToken) {
    *line += st.delta_line;
    *ch = if st.delta_line == 0 { *ch + st.delta_start } else { st.delta_start };
}

/// S1a: the delta arithmetic of create_semantic_token / map_token on ANY text: two classified
/// tokens, the second encoded relative to the position of the first (the value collect_error
/// stores into previous_token_pos - that bookkeeping itself is decided by S1b on the real
/// collect_error)
fn s1_chain<const N: usize>() {
    let buf: [u8; N] = kani::any();
    let text = sym_text(&buf);
    let k: [u8; 2] = kani::any();
    let (s0, e0, s1, e1): (usize, usize, usize, usize) = (kani::any(), kani::any(), kani::any(), kani::any());
    kani::assume(s0 < e0 && e0 <= s1 && s1 < e1 && e1 <= text.len());
    kani::assume(is_boundary(s0, text) && is_boundary(e0, text) && is_boundary(s1, text) && is_boundary(e1, text));
    let (t0, c0) = chain_kind(k[0]);
    let (t1, c1) = chain_kind(k[1]);
    kani::assume(c0 && c1);
    let toks = std::mem::ManuallyDrop::new([Token::new(t0, s0..e0), Token::new(t1, s1..e1)]);
    kani::cover!(ref_position(s1, text).0 == 1, "second token on the next line");
    kani::cover!(utf16_len(text, 0, s1) < s1 as u32, "multi-byte text before the second token");
    let a = map_token(&toks[0], Position { line: 0, character: 0 }, text);
    let prev = as_position(s0, text);
    let b = map_token(&toks[1], prev, text);
    assert!(a.is_some() && b.is_some(), "C15/S1 classified tokens are emitted");
    let (a, b) = (a.unwrap(), b.unwrap());
    let mut line = 0u32;
    let mut ch = 0u32;
    decode(&mut line, &mut ch, &a);
    let (rl, rc) = ref_position(s0, text);
    assert!(line == rl && ch == rc, "C15/S1 decoded position != LSP position of the token start");
    assert!(a.length == utf16_len(text, s0, e0), "C15/S2 length != UTF-16 length of the token text");
    decode(&mut line, &mut ch, &b);
    let (rl, rc) = ref_position(s1, text);
    assert!(line == rl && ch == rc, "C15/S1 decoded position != LSP position of the token start");
    assert!(b.length == utf16_len(text, s1, e1), "C15/S2 length != UTF-16 length of the token text");
}

#[kani::proof]
#[kani::unwind(6)]
fn c15_s1_chain_q() {
    s1_chain::<4>()
}

#[kani::proof]
#[kani::unwind(10)]
fn c15_s1_chain_t() {
    s1_chain::<8>()
}

/// S1b: the previous_token_pos bookkeeping of the REAL collect_error within one and across two
/// consecutive "declarations": two tokens of symbolic kind on symbolic ranges of a CONCRETE text
/// (the bookkeeping does not depend on the characters; arbitrary text is S1a's job).  Slice
/// lengths are concrete: three tokens with a symbolic split did not finish symex in 25 min.
const TEXT: &str = "a\u{1F600}b\n\u{e9} cd\n";

/// two tokens of symbolic kind on symbolic ranges of TEXT
fn two_tokens() -> (std::mem::ManuallyDrop<[Token; 2]>, [bool; 2], [usize; 4]) {
    let text = TEXT;
    let k: [u8; 2] = kani::any();
    let r: [usize; 4] = kani::any();
    kani::assume(r[0] < r[1] && r[1] <= r[2] && r[2] < r[3] && r[3] <= text.len());
    kani::assume(is_boundary(r[0], text) && is_boundary(r[1], text) && is_boundary(r[2], text) && is_boundary(r[3], text));
    let (t0, c0) = chain_kind(k[0]);
    let (t1, c1) = chain_kind(k[1]);
    (std::mem::ManuallyDrop::new([Token::new(t0, r[0]..r[1]), Token::new(t1, r[2]..r[3])]), [c0, c1], r)
}

fn check_stream(first: &Vec<SemanticToken>, second: &Vec<SemanticToken>, c: [bool; 2], r: [usize; 4]) {
    let text = TEXT;
    let total = first.len() + second.len();
    assert!(total == (c[0] as usize) + (c[1] as usize), "C15/S1 exactly the tokens with a lexical class are emitted");
    let mut line = 0u32;
    let mut ch = 0u32;
    let mut n = 0usize;
    macro_rules! step {
        ($c:expr, $s:expr, $e:expr) => {
            if $c {
                let st = if n < first.len() { first[n] } else { second[n - first.len()] };
                decode(&mut line, &mut ch, &st);
                let (rl, rc) = ref_position($s, text);
                assert!(line == rl && ch == rc, "C15/S1 decoded position != LSP position of the token start");
                assert!(st.length == utf16_len(text, $s, $e), "C15/S2 length != UTF-16 length of the token text");
                n += 1;
            }
        };
    }
    step!(c[0], r[0], r[1]);
    step!(c[1], r[2], r[3]);
}

// (A variant with both tokens in ONE collect_error call did not finish in 25 min and is not
// registered; the carry-over of previous_token_pos is the same assignment in both cases.)

/// one token per declaration: previous_token_pos carries over from one declaration to the next
#[kani::proof]
#[kani::unwind(16)]
fn c15_s1_collect_across() {
    let (toks, c, r) = two_tokens();
    kani::cover!(c[0] && c[1] && r[3] <= 6, "two classified tokens on the first line, in different declarations");
    kani::cover!(c[0] && c[1] && r[2] >= 7, "second declaration starts on the next line");
    let mut prev = Position { line: 0, character: 0 };
    let first = collect_error(&AstInfo::new(0..1), TEXT, &toks[..], &mut prev);
    let second = collect_error(&AstInfo::new(0..1), TEXT, &toks[1..], &mut prev);
    check_stream(&first, &second, c, r);
    std::mem::forget(first);
    std::mem::forget(second);
}

/// S1c: the same bookkeeping in the REAL collect_type_dec (type declarations), where identifiers are
/// additionally classified as TYPE: one token per declaration, two consecutive declarations.
/// (The declaring occurrence / `declaration` modifier needs `name: Some(Identifier)`, whose
/// comparison mixes token-index and byte ranges - outside the claimed clauses, see DESIGN.)
fn typedec_kind(k: u8) -> (TokenType, u8) {
    // 0 = nothing, 1 = lexical class, 2 = identifier -> type
    match k % 5 {
        0 => (TokenType::Type, 1),
        1 => (TokenType::Int(IntResult::Int(1)), 1),
        2 => (TokenType::Comment(String::new()), 1),
        3 => (TokenType::Ident(String::new()), 2),
        _ => (TokenType::Semic, 0),
    }
}

fn legend_is_type(idx: u32) -> bool {
    (idx as usize) < TOKEN_TYPES.len() && TOKEN_TYPES[idx as usize] == lsp_types::SemanticTokenType::TYPE
}

#[kani::proof]
#[kani::unwind(16)]
fn c15_s1_typedec_across() {
    let text = TEXT;
    let k: [u8; 2] = kani::any();
    let r: [usize; 4] = kani::any();
    kani::assume(r[0] < r[1] && r[1] <= r[2] && r[2] < r[3] && r[3] <= text.len());
    kani::assume(is_boundary(r[0], text) && is_boundary(r[1], text) && is_boundary(r[2], text) && is_boundary(r[3], text));
    let (t0, c0) = typedec_kind(k[0]);
    let (t1, c1) = typedec_kind(k[1]);
    let toks = std::mem::ManuallyDrop::new([Token::new(t0, r[0]..r[1]), Token::new(t1, r[2]..r[3])]);
    let td0 = std::mem::ManuallyDrop::new(TypeDeclaration { doc: Vec::new(), name: None, type_expr: None, info: AstInfo::new(0..1) });
    let td1 = std::mem::ManuallyDrop::new(TypeDeclaration { doc: Vec::new(), name: None, type_expr: None, info: AstInfo::new(0..1) });
    kani::cover!(c0 == 2 && c1 == 2 && r[2] >= 7, "identifiers in two type declarations on different lines");
    kani::cover!(c0 == 0 && c1 == 1, "unclassified token, then a keyword in the next declaration");
    let mut prev = Position { line: 0, character: 0 };
    let first = collect_type_dec(&td0, text, &toks[..], &mut prev);
    let second = collect_type_dec(&td1, text, &toks[1..], &mut prev);
    check_stream(&first, &second, [c0 != 0, c1 != 0], r);
    if c0 == 2 {
        assert!(first.len() == 1 && legend_is_type(first[0].token_type) && first[0].token_modifiers_bitset == 0, "C15 identifier in a type declaration is a type");
    }
    if c1 == 2 {
        assert!(second.len() == 1 && legend_is_type(second[0].token_type) && second[0].token_modifiers_bitset == 0, "C15 identifier in a type declaration is a type");
    }
    std::mem::forget(first);
    std::mem::forget(second);
}

/// S1d: the same bookkeeping in the REAL collect_proc_dec, with an EMPTY global table (every
/// identifier is unresolved and emits nothing - the "broken text" half of the property): one token
/// per procedure declaration, two consecutive declarations.
/// Environment stub (randomness): HashMap's RandomState::new() reads the OS random source through a
/// syscall Kani cannot execute; it is replaced by arbitrary (symbolic) keys.  The table stays empty.
fn any_random_state() -> std::collections::hash_map::RandomState {
    let keys: (u64, u64) = (kani::any(), kani::any());
    unsafe { std::mem::transmute::<(u64, u64), std::collections::hash_map::RandomState>(keys) }
}

fn procdec_kind(k: u8) -> (TokenType, bool) {
    match k % 5 {
        0 => (TokenType::If, true),
        1 => (TokenType::Int(IntResult::Int(1)), true),
        2 => (TokenType::Comment(String::new()), true),
        3 => (TokenType::Ident(String::new()), false), // unresolved identifier: emits nothing
        _ => (TokenType::Semic, false),
    }
}

#[kani::proof]
#[kani::unwind(16)]
#[kani::stub(std::collections::hash_map::RandomState::new, any_random_state)]
fn c15_s1_procdec_across() {
    let text = TEXT;
    let k: [u8; 2] = kani::any();
    let r: [usize; 4] = kani::any();
    kani::assume(r[0] < r[1] && r[1] <= r[2] && r[2] < r[3] && r[3] <= text.len());
    kani::assume(is_boundary(r[0], text) && is_boundary(r[1], text) && is_boundary(r[2], text) && is_boundary(r[3], text));
    let (t0, c0) = procdec_kind(k[0]);
    let (t1, c1) = procdec_kind(k[1]);
    let toks = std::mem::ManuallyDrop::new([Token::new(t0, r[0]..r[1]), Token::new(t1, r[2]..r[3])]);
    let mk = || std::mem::ManuallyDrop::new(ProcedureDeclaration {
        doc: Vec::new(),
        name: None,
        parameters: Vec::new(),
        variable_declarations: Vec::new(),
        statements: Vec::new(),
        info: AstInfo::new(0..1),
    });
    let (pd0, pd1) = (mk(), mk());
    let table = std::mem::ManuallyDrop::new(GlobalTable { entries: std::collections::HashMap::new() });
    kani::cover!(k[0] % 5 == 3 && c1, "unresolved identifier, then a classified token in the next procedure");
    kani::cover!(k[0] % 5 == 4 && c1, "symbol, then a classified token in the next procedure");
    let mut prev = Position { line: 0, character: 0 };
    let first = collect_proc_dec(&pd0, &table, text, &toks[..], &mut prev);
    let second = collect_proc_dec(&pd1, &table, text, &toks[1..], &mut prev);
    check_stream(&first, &second, [c0, c1], r);
    std::mem::forget(first);
    std::mem::forget(second);
}

/// S4: the `declaration` modifier on the declaring occurrence, at the two sites that do not need a populated
/// symbol table: the name of a type declaration and the name of a procedure declaration.  `name` is an
/// Identifier whose range is a TOKEN-INDEX range relative to the declaration's Reference (ast.rs); the
/// modifier must be set on the token with that index and on no other.
/// KNOWN FINDING (class decl_modifier_units, known_findings.txt): the real code compares that token-index
/// range with the token's BYTE range, so these harnesses FAIL on the pinned tree; they are run only while the
/// class is listed and their failure is printed as KNOWN-FINDING.
fn ident_tokens(r: [usize; 4]) -> std::mem::ManuallyDrop<[Token; 2]> {
    std::mem::ManuallyDrop::new([
        Token::new(TokenType::Ident(String::new()), r[0]..r[1]),
        Token::new(TokenType::Ident(String::new()), r[2]..r[3]),
    ])
}

#[kani::proof]
#[kani::unwind(16)]
fn c15_s4_decl_modifier_typedec() {
    let text = TEXT;
    let r: [usize; 4] = kani::any();
    kani::assume(r[0] < r[1] && r[1] <= r[2] && r[2] < r[3] && r[3] <= text.len());
    kani::assume(is_boundary(r[0], text) && is_boundary(r[1], text) && is_boundary(r[2], text) && is_boundary(r[3], text));
    let ni: usize = kani::any();
    kani::assume(ni < 2);
    let toks = ident_tokens(r);
    let td = std::mem::ManuallyDrop::new(TypeDeclaration {
        doc: Vec::new(),
        name: Some(Identifier { value: String::new(), info: AstInfo::new(ni..ni + 1) }),
        type_expr: None,
        info: AstInfo::new(0..2),
    });
    let mut prev = Position { line: 0, character: 0 };
    let out = collect_type_dec(&td, text, &toks[..], &mut prev);
    let n = out.len();
    let m0 = if n > 0 { out[0].token_modifiers_bitset } else { 99 };
    let m1 = if n > 1 { out[1].token_modifiers_bitset } else { 99 };
    std::mem::forget(out);
    assert!(n == 2, "C15/S4 both identifiers of a type declaration are emitted");
    assert!((m0 == 1) == (ni == 0) && (m0 == 0) == (ni != 0), "C15/S4 declaration modifier exactly on the declaring occurrence (type name, first token)");
    assert!((m1 == 1) == (ni == 1) && (m1 == 0) == (ni != 1), "C15/S4 declaration modifier exactly on the declaring occurrence (type name, second token)");
}

// NOT REGISTERED: with `name: Some(..)` the real get_local_table() hashes the name with the (symbolic) hasher
// keys; no verdict in 15 min / 3 GB.  Kept for reference; the finding is decided on the type-declaration site.
#[kani::proof]
#[kani::unwind(16)]
#[kani::stub(std::collections::hash_map::RandomState::new, any_random_state)]
fn c15_s4_decl_modifier_procdec() {
    let text = TEXT;
    let r: [usize; 4] = kani::any();
    kani::assume(r[0] < r[1] && r[1] <= r[2] && r[2] < r[3] && r[3] <= text.len());
    kani::assume(is_boundary(r[0], text) && is_boundary(r[1], text) && is_boundary(r[2], text) && is_boundary(r[3], text));
    let ni: usize = kani::any();
    kani::assume(ni < 2);
    let toks = ident_tokens(r);
    let pd = std::mem::ManuallyDrop::new(ProcedureDeclaration {
        doc: Vec::new(),
        name: Some(Identifier { value: String::new(), info: AstInfo::new(ni..ni + 1) }),
        parameters: Vec::new(),
        variable_declarations: Vec::new(),
        statements: Vec::new(),
        info: AstInfo::new(0..2),
    });
    let table = std::mem::ManuallyDrop::new(GlobalTable { entries: std::collections::HashMap::new() });
    let mut prev = Position { line: 0, character: 0 };
    let out = collect_proc_dec(&pd, &table, text, &toks[..], &mut prev);
    let n = out.len();
    let (m, ty, dl, ds) = if n > 0 { (out[0].token_modifiers_bitset, out[0].token_type, out[0].delta_line, out[0].delta_start) } else { (99, 99, 0, 0) };
    std::mem::forget(out);
    // the other identifier is unresolved (empty table) and emits nothing
    assert!(n == 1, "C15/S4 exactly the procedure name is emitted (the other identifier is unresolved)");
    assert!(m == 1, "C15/S4 declaration modifier on the procedure name");
    assert!((ty as usize) < TOKEN_TYPES.len() && TOKEN_TYPES[ty as usize] == lsp_types::SemanticTokenType::FUNCTION, "C15/S4 procedure name is a function");
    let (l, c) = ref_position(r[2 * ni], text);
    assert!(dl == l && ds == c, "C15/S4 the emitted token is the one with the name's token index");
}

/// S3 for every token kind of the real TokenType (one token, ASCII text)
#[kani::proof]
#[kani::unwind(12)]
fn c15_s3_all_kinds() {
    let k: u8 = kani::any();
    kani::assume(k < 36);
    let tt = match k {
        0 => TokenType::LParen,
        1 => TokenType::RParen,
        2 => TokenType::LBracket,
        3 => TokenType::RBracket,
        4 => TokenType::LCurly,
        5 => TokenType::RCurly,
        6 => TokenType::Eq,
        7 => TokenType::Neq,
        8 => TokenType::Lt,
        9 => TokenType::Le,
        10 => TokenType::Gt,
        11 => TokenType::Ge,
        12 => TokenType::Assign,
        13 => TokenType::Colon,
        14 => TokenType::Comma,
        15 => TokenType::Semic,
        16 => TokenType::Plus,
        17 => TokenType::Minus,
        18 => TokenType::Times,
        19 => TokenType::Divide,
        20 => TokenType::If,
        21 => TokenType::Else,
        22 => TokenType::While,
        23 => TokenType::Array,
        24 => TokenType::Of,
        25 => TokenType::Proc,
        26 => TokenType::Ref,
        27 => TokenType::Type,
        28 => TokenType::Var,
        29 => TokenType::Ident(String::new()),
        30 => TokenType::Char(kani::any()),
        31 => TokenType::Int(IntResult::Int(kani::any())),
        32 => TokenType::Hex(IntResult::Int(kani::any())),
        33 => TokenType::Comment(String::new()),
        34 => TokenType::Unknown(String::new()),
        _ => TokenType::Eof,
    };
    let want = if (20..=28).contains(&k) {
        "keyword"
    } else if (30..=32).contains(&k) {
        "number"
    } else if k == 33 {
        "comment"
    } else {
        ""
    };
    let tok = Token::new(tt, 1..2);
    let got = map_token(&tok, Position { line: 0, character: 0 }, "ab");
    kani::cover!(k == 32, "hex literal");
    kani::cover!(k == 28, "var keyword");
    match got {
        Some(st) => {
            assert!(want != "", "C15/S3 token kind without lexical class must not be mapped");
            assert!(legend_name(st.token_type) == want, "C15/S3 lexical class does not match the legend");
            assert!(st.delta_line == 0 && st.delta_start == 1 && st.length == 1);
        }
        None => assert!(want == "", "C15/S3 keyword/number/comment token must be mapped"),
    }
    std::mem::forget(tok);
}

#[kani::proof]
#[kani::unwind(7)]
fn c15_twin_must_fail() {
    let buf: [u8; 3] = kani::any();
    let text = sym_text(&buf);
    kani::assume(text.len() >= 1);
    let toks = vec![Token::new(TokenType::If, 0..1)];
    let mut prev = Position { line: 0, character: 0 };
    let out = collect_error(&AstInfo::new(0..1), text, &toks, &mut prev);
    let n = out.len();
    std::mem::forget(toks);
    std::mem::forget(out);
    assert!(n == 0, "twin: reachable end of harness (expected to FAIL)");
}
