// Harnesses for spl_frontend/src/tokens.rs (property C01, part A1: the change-window arithmetic
// every reuse decision of the incremental parser is built on).
// Appended as `#[cfg(kani)] mod __verif { use super::*; ... }`; TokenChange::* are the REAL fns.
//
// Model: new = old[..ds] ++ inserted(ins tokens) ++ old[de..]   (ds <= de <= n_old)
//   * surviving old token i keeps index i (i < ds) or moves to i + ins - (de - ds) (i >= de)
//   * the first unchanged token behind the window sits at ds + ins in the new stream
//   * what reuse soundness needs from the predicates (only this direction is asserted, see below):
//     a deleted token inside R, or tokens inserted strictly inside R, must make overlaps(R) true;
//     every position behind the first unchanged token must be out_of_range; deletes is total

fn sym_change(max: usize) -> (usize, usize, usize, usize) {
    let n: usize = kani::any();
    let ds: usize = kani::any();
    let de: usize = kani::any();
    let ins: usize = kani::any();
    kani::assume(n <= max && ds <= de && de <= n && ins <= max);
    (n, ds, de, ins)
}

#[kani::proof]
fn c01_a1_new_token_pos() {
    let (n, ds, de, ins) = sym_change(1 << 32);
    let tc = TokenChange::new(ds..de, ins);
    let i: usize = kani::any();
    kani::assume(i < n);
    kani::cover!(i >= de && ins < de - ds, "token behind a shrinking window");
    kani::cover!(i >= de && ins > de - ds, "token behind a growing window");
    let got = tc.new_token_pos(i); // must not overflow/underflow for any surviving or deleted token
    if i < ds {
        assert!(got == i, "C01/A1 token in front of the window keeps its index");
    } else if i >= de {
        // computed without the subtraction order of the implementation
        let want = (i - de) + ds + ins;
        assert!(got == want, "C01/A1 token behind the window moves by ins - deleted");
    }
}

// Only the direction C01 NEEDS is asserted for the three predicates: affected() may always answer
// "affected" (the caller then re-parses, which is slower but correct), so a more conservative
// out_of_range / overlaps / deletes does not break the property and must not raise an alarm.  What
// breaks it is a predicate that MISSES a change: then a stale node is reused.

#[kani::proof]
fn c01_a1_out_of_range() {
    let (_n, ds, de, ins) = sym_change(1 << 32);
    let tc = TokenChange::new(ds..de, ins);
    let p: usize = kani::any();
    kani::assume(p <= (1 << 33));
    kani::cover!(p == ds + ins + 1 && ins > 0 && de > ds, "second unchanged token behind a replacing change");
    let r = tc.out_of_range(p); // no over/underflow for any p
    // Needed by affected(): a parser position strictly behind the new position of a node that starts
    // behind the window (p > s_new >= ds + ins) must be recognised as "partially consumed".  The
    // boundary p == ds + ins itself never decides a reuse (p > s_new is false there), so it is not
    // asserted: `>` instead of `>=` is observationally equivalent and must not raise an alarm.
    if p > ds + ins {
        assert!(r, "C01/A1 every position behind the first unchanged token must be out of range of the change");
    }
}

#[kani::proof]
fn c01_a1_deletes_overlaps() {
    let (n, ds, de, ins) = sym_change(1 << 32);
    let tc = TokenChange::new(ds..de, ins);
    let rs: usize = kani::any();
    let re: usize = kani::any();
    kani::assume(rs < re && re <= n + 1); // non-empty old range (affected() also probes range.end + 1)
    let r = rs..re;
    // an arbitrary token of R
    let t: usize = kani::any();
    kani::assume(rs <= t && t < re);
    let t_deleted = ds <= t && t < de;
    kani::cover!(ds < de && tc.overlaps(&r) && !tc.deletes(&r), "partial overlap");
    kani::cover!(ds == de && rs < ds && ds < re, "pure insertion strictly inside R");
    kani::cover!(ds == de && ds == rs, "pure insertion at the very start of R");
    kani::cover!(ds == de && ds == re, "pure insertion right behind R");
    let _ = tc.deletes(&r); // total
    if ds < de {
        if t_deleted {
            assert!(tc.overlaps(&r), "C01/A1 a deleted token inside R must be seen: overlaps(R)");
        }
    } else if rs < ds && ds < re {
        assert!(tc.overlaps(&r), "C01/A1 tokens inserted strictly inside R must be seen: overlaps(R)");
    }
}

#[kani::proof]
fn c01_a1_twin_must_fail() {
    let (_n, ds, de, ins) = sym_change(16);
    let tc = TokenChange::new(ds..de, ins);
    let p: usize = kani::any();
    kani::assume(p <= 64);
    let r = tc.out_of_range(p);
    assert!(r, "twin: reachable end of harness (expected to FAIL)");
}
