// Harnesses for spl_frontend/src/parser/utility.rs (property C01, parts A2/A3/A4i: reuse soundness
// and diagnostics on reuse of the REAL generic `affected` combinator, and the REAL `info` combinator).
// Appended as `#[cfg(kani)] mod __verif { use super::*; ... }`.
//
// The real node parsers (nom over TokenStream) are out of reach of CBMC (DESIGN 1.1), so the real
// `affected` is instantiated with a harness-defined node type `Leaf`:
//     Leaf ::= ";"*            (a maximal, possibly empty, run of semicolons - needs one token of
//                               look-ahead, which is exactly what affected()'s "range + 1" rule
//                               protects; the parser is TOTAL on purpose: a parser whose Ok/Err
//                               outcome is symbolic makes CBMC execute the drop glue of
//                               Vec<SplError> on merged values, 10^7 SAT variables - DESIGN 1.5)
// whose from-scratch parser is `run_inner` below.  Oracle (what C01 says for a single node):
//     if affected(Some(old_node), inner) REUSES the old node at position p of the new stream,
//     then parsing from scratch at p yields the same node and the same rest position.
//
// Pre-states (positions p a real caller can be in - the inductive-step formulation):
//   * node starts in the unchanged head (s < ds)            => p == s
//   * node starts behind the window (s >= de)               => p inside the inserted tokens, or
//                                                              p >= new position of s (p > : previous
//                                                              parsers already consumed part of it)
//   * node start was deleted (ds <= s < de)                 => any p >= ds
// A gap of unconsumed surviving tokens in front of the node (p < new position of s, outside the
// insertion) is the caller's business (many()/handle_insertions) and is not a pre-state here.

use crate::error::{BuildErrorMessage, LexErrorMessage, SemanticErrorMessage, SplError};
use crate::tokens::TokenType;
use std::cell::Cell;

#[derive(Clone, Debug)]
pub struct Leaf {
    pub info: AstInfo,
}

impl ToRange for Leaf {
    fn to_range(&self) -> Range<usize> {
        self.info.range.clone()
    }
}

impl AstInfoTraverser for Leaf {
    fn traverse(&self, f: fn(&AstInfo)) {
        f(&self.info)
    }
    fn traverse_mut(&mut self, f: fn(&mut AstInfo)) {
        f(&mut self.info)
    }
}

pub const K_SEMIC: u8 = 0;
pub const K_COMMA: u8 = 1;
pub const K_OTHER: u8 = 2;
pub const K_EOF: u8 = 3;

pub fn tok(kind: u8, at: usize) -> Token {
    let tt = match kind {
        K_SEMIC => TokenType::Semic,
        K_COMMA => TokenType::Comma,
        K_OTHER => TokenType::LParen,
        _ => TokenType::Eof,
    };
    Token::new(tt, at..at + 1)
}

fn is_semic(t: Option<&Token>) -> bool {
    matches!(t, Some(Token { token_type: TokenType::Semic, .. }))
}

/// from-scratch parser of Leaf: maximal (possibly empty) run of `;`; loop-free so that the
/// global unwind bound can stay at the size of the Vecs the real code iterates over
pub fn run_inner<'a>(input: TokenStream<'a>) -> IResult<'a, Leaf> {
    let start = input.location_offset() - input.reference_pos;
    let t = &input[..];
    let n = if !is_semic(t.get(0)) {
        0
    } else if !is_semic(t.get(1)) {
        1
    } else if !is_semic(t.get(2)) {
        2
    } else if !is_semic(t.get(3)) {
        3
    } else if !is_semic(t.get(4)) {
        4
    } else if !is_semic(t.get(5)) {
        5
    } else if !is_semic(t.get(6)) {
        6
    } else if !is_semic(t.get(7)) {
        7
    } else if !is_semic(t.get(8)) {
        8
    } else if !is_semic(t.get(9)) {
        9
    } else if !is_semic(t.get(10)) {
        10
    } else {
        11
    };
    Ok((
        input.advance(n),
        Leaf {
            info: AstInfo::new(start..start + n),
        },
    ))
}

impl Parser for Leaf {
    fn parse<'a>(this: Option<&Self>, input: TokenStream<'a>) -> IResult<'a, Self> {
        affected(this, run_inner)(input)
    }
}

pub const M: usize = 12; // capacity of the new-token buffer

fn pick(old: &[u8; M], ik: &[u8; 2], j: usize, ds: usize, de: usize, ins: usize, new_len: usize) -> u8 {
    if j >= new_len {
        K_EOF
    } else if j < ds {
        old[j]
    } else if j < ds + ins {
        ik[j - ds]
    } else {
        old[j - ins + (de - ds)]
    }
}

/// Builds old kinds (N <= 8 tokens + Eof), a truthful change window and the new kinds (loop-free).
/// returns (old kinds, new kinds, new_len, ds, de, ins)
pub fn sym_edit<const N: usize>(max_ins: usize) -> ([u8; M], [u8; M], usize, usize, usize, usize) {
    let raw: [u8; 8] = kani::any();
    let mut old = [K_EOF; M];
    macro_rules! set {
        ($($i:literal),*) => { $( if $i < N { kani::assume(raw[$i] <= K_OTHER); old[$i] = raw[$i]; } )* };
    }
    set!(0, 1, 2, 3, 4, 5, 6, 7);
    // old[N] == Eof; the window never touches Eof (lexer::update pops it first)
    let ds: usize = kani::any();
    let de: usize = kani::any();
    let ins: usize = kani::any();
    kani::assume(N <= 8 && ds <= de && de <= N && ins <= max_ins && max_ins <= 2);
    let ik: [u8; 2] = kani::any();
    kani::assume(ik[0] <= K_OTHER && ik[1] <= K_OTHER);
    let new_len = N + 1 - (de - ds) + ins;
    macro_rules! p {
        ($j:literal) => { pick(&old, &ik, $j, ds, de, ins, new_len) };
    }
    let new = [p!(0), p!(1), p!(2), p!(3), p!(4), p!(5), p!(6), p!(7), p!(8), p!(9), p!(10), K_EOF];
    (old, new, new_len, ds, de, ins)
}

/// explicit literal: no loop to unwind; callers mem::forget the array (drop glue of [Token; M] is a loop)
pub fn build_tokens(k: &[u8; M]) -> std::mem::ManuallyDrop<[Token; M]> {
    std::mem::ManuallyDrop::new([
        tok(k[0], 0), tok(k[1], 1), tok(k[2], 2), tok(k[3], 3), tok(k[4], 4),
        tok(k[5], 5), tok(k[6], 6), tok(k[7], 7), tok(k[8], 8), tok(k[9], 9),
        tok(k[10], 10), tok(k[11], 11),
    ])
}

fn a2<const N: usize>() {
    let (old, new, new_len, ds, de, ins) = sym_edit::<N>(2);
    // old node: a maximal run of `;` at old[s..e)
    let s: usize = kani::any();
    let e: usize = kani::any();
    kani::assume(s < e && e <= N);
    macro_rules! run { ($($i:literal),*) => { $( if s <= $i && $i < e { kani::assume(old[$i] == K_SEMIC); } )* }; }
    run!(0, 1, 2, 3, 4, 5, 6, 7);
    kani::assume(old[e] != K_SEMIC);
    // reference frame: the node's range is relative to an enclosing Reference that starts
    // `rel` tokens in front of it (old absolute start of that Reference: s - rel)
    let rel: usize = kani::any();
    kani::assume(rel <= s);
    let node = Leaf {
        info: AstInfo::new(rel..rel + (e - s)),
    };
    // position of the parser in the new stream (reachable pre-states, see header)
    let p: usize = kani::any();
    kani::assume(p <= new_len && rel <= p);
    let s_new = if s >= de { s + ins - (de - ds) } else { s };
    if s < ds {
        kani::assume(p == s);
    } else if s >= de {
        kani::assume((ds <= p && p < ds + ins) || p >= s_new);
    } else {
        kani::assume(p >= ds);
    }
    let new_toks = build_tokens(&new);
    let mk = || {
        let mut st = TokenStream::new_with_change(&new_toks[..new_len], TokenChange::new(ds..de, ins)).advance(p);
        st.reference_pos = p - rel;
        st
    };
    let mut stream = mk();
    stream.inc_references = vec![s - rel];

    let called = Cell::new(false);
    let inc = affected(Some(&node), |i| {
        called.set(true);
        run_inner(i)
    })(stream);
    let scr = run_inner(mk());

    let reused = inc.is_ok() && !called.get();
    kani::cover!(reused && ds < de && de <= s, "node behind a deleting window reused");
    kani::cover!(reused && ins > 0 && e + 1 <= ds, "node in front of an inserting window reused");
    kani::cover!(reused && ds == de && ds == s && ins > 0, "node reused right behind tokens inserted at its start");
    kani::cover!(!reused && inc.is_err(), "node reported as affected");
    kani::cover!(inc.is_ok() && called.get(), "node re-parsed because the window overlaps range+1");
    if reused {
        match (&inc, &scr) {
            (Ok((rest, leaf)), Ok((rest2, leaf2))) => {
                assert!(leaf.info.range == leaf2.info.range, "C01/A2 reused node differs from the node parsed from scratch at the same position");
                assert!(rest.location_offset() == rest2.location_offset(), "C01/A2 reuse advanced the stream differently from a parse from scratch");
                assert!(leaf.info.errors.is_empty());
            }
            _ => {
                assert!(false, "C01/A2 node reused where a parse from scratch fails");
            }
        }
    }
    std::mem::forget(inc);
    std::mem::forget(scr);
    std::mem::forget(node);
}

#[kani::proof]
#[kani::unwind(3)]
fn c01_a2_q() {
    a2::<4>()
}

#[kani::proof]
#[kani::unwind(3)]
fn c01_a2_t() {
    a2::<8>()
}

// ---------------------------------------------------------------------------
// A3  diagnostics of a reused node: lexical and syntax messages stay, build/semantic ones go
// ---------------------------------------------------------------------------
fn msg(k: u8) -> (ErrorMessage, bool) {
    match k % 4 {
        0 => (ErrorMessage::LexErrorMessage(LexErrorMessage::MissingClosingTick), true),
        1 => (ErrorMessage::ParseErrorMessage(ParseErrorMessage::MissingTrailingSemic), true),
        2 => (ErrorMessage::BuildErrorMessage(BuildErrorMessage::MainIsMissing), false),
        _ => (ErrorMessage::SemanticErrorMessage(SemanticErrorMessage::AssignmentRequiresIntegers), false),
    }
}

#[kani::proof]
#[kani::unwind(3)]
fn c01_a3_messages() {
    // `;` `(` Eof ; the node is the `;` at 0; nothing changes near it (window: insertion at Eof)
    let kinds = {
        let mut k = [K_EOF; M];
        k[0] = K_SEMIC;
        k[1] = K_OTHER;
        k[2] = K_OTHER;
        k
    };
    let toks = build_tokens(&kinds);
    let k0: u8 = kani::any();
    let k1: u8 = kani::any();
    let (m0, keep0) = msg(k0);
    let (m1, keep1) = msg(k1);
    let node = Leaf {
        info: AstInfo::new_with_errors(0..1, vec![SplError(0..1, m0), SplError(0..0, m1)]),
    };
    let stream = TokenStream::new_with_change(&toks[..4], TokenChange::new(2..2, 1));
    kani::cover!(keep0 && !keep1, "syntax message kept, semantic message dropped");
    kani::cover!(!keep0 && !keep1, "both dropped");
    let r = affected(Some(&node), run_inner)(stream);
    assert!(r.is_ok(), "C01/A3 untouched node must be accepted");
    let (rest, leaf) = r.unwrap();
    let want = (keep0 as usize) + (keep1 as usize);
    assert!(leaf.info.errors.len() == want, "C01/A3 a reused node keeps exactly its lexical/syntax messages");
    if keep0 {
        assert!(leaf.info.errors[0].0 == (0..1), "C01/A3 kept message keeps its place");
        assert!(matches!(leaf.info.errors[0].1, ErrorMessage::LexErrorMessage(_) | ErrorMessage::ParseErrorMessage(_)));
    }
    if keep1 {
        let at = keep0 as usize;
        assert!(leaf.info.errors[at].0 == (0..0), "C01/A3 kept message keeps its place");
        assert!(matches!(leaf.info.errors[at].1, ErrorMessage::LexErrorMessage(_) | ErrorMessage::ParseErrorMessage(_)));
    }
    assert!(node.info.errors.len() == 2, "C01/A3 the old tree is not modified");
    std::mem::forget(rest);
    std::mem::forget(leaf);
    std::mem::forget(node);
}

// A3 on REAL syntax-tree node types (a reused Expression `( - 1 ) + a[1]` / Statement `a := 1 + 1`
// must lose the build/semantic messages of every nested node, through the node types' own
// traverse_mut) was tried with fixed tree shapes and a symbolic message class: the real deep Clone
// plus recursive traverse_mut of the Box/enum trees ran out of 24 GB (statement) or of 15-20 min
// (expression).  Not registered, not claimed; A3 is decided for the harness node type only.

// ---------------------------------------------------------------------------
// A4i  info(): the range recorded for a node is measured in the NEW stream relative to the enclosing
//      Reference, the diagnostics the node's parser buffered end up in the node (and only there),
//      and the caller's buffer and frame are handed back untouched.  Every real node is built
//      through info(); a reused node keeps its old AstInfo, so this is the "from scratch" side that
//      reuse is compared with.
// ---------------------------------------------------------------------------
fn inner_with_msg<'a>(mut input: TokenStream<'a>) -> IResult<'a, usize> {
    let t = &input[..];
    let n = if !is_semic(t.get(0)) {
        0
    } else if !is_semic(t.get(1)) {
        1
    } else if !is_semic(t.get(2)) {
        2
    } else {
        3
    };
    if n == 0 {
        // nothing parsable: a diagnostic is buffered, like expect() does
        input.error_buffer.push(SplError(0..0, ParseErrorMessage::MissingTrailingSemic.into()));
    }
    Ok((input.advance(n), n))
}

#[kani::proof]
#[kani::unwind(3)]
fn c01_a4_info() {
    let (_old, new, new_len, ds, de, ins) = sym_edit::<4>(1);
    let new_toks = build_tokens(&new);
    let p: usize = kani::any();
    let rp: usize = kani::any();
    kani::assume(p <= new_len && rp <= p);
    let outer_has_msg: bool = kani::any();
    let mut stream = TokenStream::new_with_change(&new_toks[..new_len], TokenChange::new(ds..de, ins)).advance(p);
    stream.reference_pos = rp;
    if outer_has_msg {
        stream.error_buffer.push(SplError(7..7, ParseErrorMessage::MissingTrailingSemic.into()));
    }
    let r = info(inner_with_msg)(stream);
    match &r {
        Ok((rest, (n, ai))) => {
            kani::cover!(*n == 2 && rp > 0 && p > rp, "two tokens consumed inside a Reference that starts later than the stream");
            kani::cover!(*n == 0 && outer_has_msg, "inner diagnostic while the caller has one pending");
            assert!(ai.range.start == p - rp && ai.range.end == p - rp + *n, "C01/A4i node range must be measured relative to the enclosing Reference, in the new stream");
            assert!(ai.errors.len() == (*n == 0) as usize, "C01/A4i the diagnostics buffered by the node's parser belong to the node");
            assert!(rest.error_buffer.len() == outer_has_msg as usize, "C01/A4i the caller's pending diagnostics are handed back unchanged");
            if outer_has_msg {
                assert!(rest.error_buffer[0].0 == (7..7));
            }
            assert!(rest.reference_pos == rp && rest.location_offset() == p + *n, "C01/A4i frame and position");
        }
        Err(_) => assert!(false, "C01/A4i info() of a total parser cannot fail"),
    }
    std::mem::forget(r);
}

// expect() was tried once more with a SCRIPTED node parser whose two answers are constants (Affected,
// then Ok / Error), to exercise the retry-without-old-node control flow: no verdict in 10-20 min /
// 20 GB either (the `match` arms of expect() move and drop ParserError values).  Not registered.

#[kani::proof]
#[kani::unwind(3)]
fn c01_a2_twin_must_fail() {
    let (_old, new, new_len, ds, de, ins) = sym_edit::<3>(1);
    let new_toks = build_tokens(&new);
    let p: usize = kani::any();
    kani::assume(p <= new_len);
    let stream = TokenStream::new_with_change(&new_toks[..new_len], TokenChange::new(ds..de, ins)).advance(p);
    let node = Leaf { info: AstInfo::new(0..1) };
    let r = affected(Some(&node), run_inner)(stream);
    let ok = r.is_ok();
    std::mem::forget(r);
    assert!(!ok, "twin: reachable end of harness (expected to FAIL)");
}
