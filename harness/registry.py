# Harness registry: which harness file attaches to which repo file, which harnesses run in
# which tier, with which caps, and what each decides.  Read by /verif/check.
#
# harness fields: name (full module path, matched with --exact), tiers, expect ("pass" | "fail"
# for the vacuity twin), timeout [s], mem_gb (address-space cap of the whole process group),
# bound / what (copied into the evidence file), known_class (only run when known_findings.txt
# lists that class; expected to fail).

def H(name, tiers, what="", bound="", expect="pass", timeout=900, mem_gb=16, known_class=None, search_boxes=None):
    d = dict(name=name, tiers=tiers, what=what, bound=bound, expect=expect, timeout=timeout, mem_gb=mem_gb)
    if search_boxes:
        # finite input boxes of the harness, in kani::any() order, as (byte width, lo, hi); only used to materialise a
        # replayable witness natively when Kani's concrete-playback run cannot finish (see check: witness_search)
        d["search_boxes"] = search_boxes
    if known_class:
        d["known_class"] = known_class
    return d


Q, T, QT = ["quick"], ["thorough"], ["quick", "thorough"]

PROPERTIES = {}

# --------------------------------------------------------------------------- C08
PROPERTIES["C08"] = dict(
    crate_dir="lsp4spl",
    attach={"document.rs": "lsp4spl/src/document.rs"},
    functions={"lsp4spl/src/document.rs": ["get_insertion_index", "as_position", "as_pos_range",
                                           "as_index_range", "to_text_changes"]},
    explanation=(
        "The real get_insertion_index / as_position / as_pos_range / as_index_range / to_text_changes of "
        "lsp4spl/src/document.rs are compiled by kani-compiler from a copy of /repo's working tree and executed "
        "symbolically on an arbitrary valid UTF-8 text of symbolic length (every byte value, so ASCII, 2/3/4-byte "
        "characters, CR, LF arise by themselves) and arbitrary (also overshooting) positions; CBMC decides, for all such "
        "inputs within the bound, equality with an LSP reference text model written over bytes in the harness "
        "(UTF-16 columns, clamp at end of line / end of text). The real to_text_changes is executed on four CONCRETE texts "
        "(ASCII/astral/LF, 2-byte/CRLF, two bytes, empty) with ONE fully symbolic content change (ranged or range-less, "
        "overshooting positions, symbolic inserted string); its result, folded like AnalyzedSource::update folds it, must "
        "equal the reference. Batches of several changes are NOT covered (out of reach). Counterexamples are replayed natively."),
    assumptions=[
        "texts in which a CR is not followed by LF (lone CR as line break) are assumed away wherever the LSP reference is compared; the reference-free round trip (P2r) includes them",
        "positions pointing into the middle of a surrogate pair are not compared (only: result is a char boundary inside the text)",
        "inverted ranges (start > end) are assumed away (LSP precondition)",
        "as_position round trip is asserted for indices on char boundaries that are not between CR and LF",
        "AnalyzedSource::update's text fold (lib.rs: acc.text.replace_range(change.range, &change.text)) is restated in the harness, because update itself lexes and parses (out of reach)",
        "color-eyre replaced by a compile-only stand-in; harness-owned Strings are mem::forget-ed",
        "trusted: kani-compiler MIR->GOTO translation, CBMC, CaDiCaL, core::str::from_utf8, String::replace_range",
    ],
    outside=[
        "texts longer than the stated byte bound",
        "more than ONE content change per notification (seven reductions of a two-change harness exhaust 30 GB)",
        "to_text_changes on texts other than the four concrete ones (symbolic text does not finish even for 1 byte)",
        "the broker's HashMap plumbing and the lexer/parser update that follows the text update",
    ],
    harnesses=[
        H("document::__verif::c08_p1_q", Q, "get_insertion_index == LSP offset (UTF-16 columns, clamping)", "any valid UTF-8 text <= 5 bytes; line <= 6, character <= 7; unwind 7", timeout=900),
        H("document::__verif::c08_p1b_q", Q, "as_index_range == (LSP offset of start)..(LSP offset of end)", "any valid UTF-8 text <= 4 bytes; two positions <= (5,6); unwind 6", timeout=900),
        H("document::__verif::c08_p2_q", Q, "as_position == LSP position; get_insertion_index(as_position(i)) == i; out-of-range index clamps; as_pos_range", "any valid UTF-8 text <= 5 bytes; index <= 7; unwind 7", timeout=900),
        H("document::__verif::c08_p2r_q", Q, "round trip get_insertion_index(as_position(i)) == i on texts that may contain a lone CR", "any valid UTF-8 text <= 4 bytes (no CR restriction); unwind 6", timeout=900),
        H("document::__verif::c08_p3_one_change_a", QT, "one symbolic content change (ranged or range-less): fold(to_text_changes) == LSP reference; no panic", "concrete text 'a<U+1F600>LF b' (7 B); kind, positions <= (3,5) incl. overshoot, inserted string in {'', x, LF, U+1F600} symbolic; unwind 14", timeout=1500, mem_gb=24, search_boxes=[[(1, 1, 1), (1, 0, 3), (4, 0, 3), (4, 0, 5), (4, 0, 3), (4, 0, 5)], [(1, 0, 0), (1, 0, 3)]]),
        H("document::__verif::c08_p3_one_change_b", QT, "same", "concrete text '<e-acute>CRLF x LF' (6 B)", timeout=1500, mem_gb=24, search_boxes=[[(1, 1, 1), (1, 0, 3), (4, 0, 3), (4, 0, 5), (4, 0, 3), (4, 0, 5)], [(1, 0, 0), (1, 0, 3)]]),
        H("document::__verif::c08_p3_one_change_c", QT, "same", "empty document", timeout=1500, mem_gb=24, search_boxes=[[(1, 1, 1), (1, 0, 3), (4, 0, 3), (4, 0, 5), (4, 0, 3), (4, 0, 5)], [(1, 0, 0), (1, 0, 3)]]),
        H("document::__verif::c08_p3_one_change_d", QT, "same", "concrete text 'a LF' (2 B)", timeout=1500, mem_gb=24, search_boxes=[[(1, 1, 1), (1, 0, 3), (4, 0, 3), (4, 0, 5), (4, 0, 3), (4, 0, 5)], [(1, 0, 0), (1, 0, 3)]]),
        H("document::__verif::c08_twin_must_fail", QT, "vacuity twin: end of harness reachable", "", expect="fail", timeout=600),
        H("document::__verif::c08_p1_t", T, "get_insertion_index == LSP offset", "any valid UTF-8 text <= 12 bytes; line <= 13, character <= 14; unwind 14", timeout=7200, mem_gb=30),
        H("document::__verif::c08_p1b_t", T, "as_index_range == (LSP offset of start)..(LSP offset of end)", "any valid UTF-8 text <= 8 bytes; unwind 10", timeout=5400, mem_gb=30),
        H("document::__verif::c08_p2r_t", T, "round trip on texts that may contain a lone CR", "any valid UTF-8 text <= 8 bytes; unwind 10", timeout=5400, mem_gb=30),
        H("document::__verif::c08_p2_t", T, "as_position / round trip", "any valid UTF-8 text <= 12 bytes; index <= 14; unwind 14", timeout=7200, mem_gb=30),
    ],
)

# --------------------------------------------------------------------------- C14
PROPERTIES["C14"] = dict(
    crate_dir="lsp4spl",
    attach={"signature_help.rs": "lsp4spl/src/features/signature_help.rs"},
    functions={"lsp4spl/src/features/signature_help.rs": ["get_active_param", "find_call_stmt", "find_call_stmt_in_stmt"]},
    explanation=(
        "The real signature_help::get_active_param is executed symbolically on the token slice of a call statement "
        "(adjacent tokens of symbolic kind, symbolic cursor offset from before the first token to past the last); CBMC "
        "decides that the active parameter is the number of commas that start before the cursor when the callee has "
        "parameters and None when it has none. The real find_call_stmt / find_call_stmt_in_stmt are executed on a procedure "
        "or block whose statement is if / while / if-else around a call (and a procedure whose body is a call), with symbolic offsets, call length and cursor: the call is "
        "returned iff the cursor lies inside it, together with the accumulated offset of its Reference chain. "
        "Only these two clauses of C14 are decided."),
    assumptions=[
        "tokens are adjacent one-byte tokens (token i covers [i, i+1)); kinds drawn from {',', '(', ')', ';', '[', ']', int}",
        "hover text, signature label, selection of the enclosing PROCEDURE and the symbol-table lookup are outside (HashMap / parser out of reach)",
        "enclosing-call harnesses: fixed statement shapes (block/if, block/while, block/else, procedure/call), one-byte adjacent tokens, Reference offsets <= 2 (<= 3 at procedure level)",
        "trusted: kani-compiler, CBMC, CaDiCaL",
    ],
    outside=["more tokens / deeper nesting than the bound (a three-call tree and a procedure with a nested statement exhaust 24 GB)", "everything of C14 except the active-parameter rule and the choice of the enclosing call: hover text, signature label, parameter entries"],
    harnesses=[
        H("features::signature_help::__verif::c14_active_q", Q, "active parameter == #commas before cursor; None without parameters", "4 tokens of symbolic kind, cursor <= 6", timeout=600),
        H("features::signature_help::__verif::c14_active_t", T, "same", "7 tokens with symbolic gaps/widths, cursor anywhere", timeout=1800),
        H("features::signature_help::__verif::c14_enclosing_call_if", Q, "find_call_stmt_in_stmt: the call nested in `{ if (..) call }` is found iff the cursor is inside it, with the accumulated Reference offset", "block with one statement; symbolic base/statement/call offsets (<=2), call length 1..2, cursor; 7 adjacent one-byte tokens", timeout=1200, mem_gb=24),
        H("features::signature_help::__verif::c14_enclosing_call_while", Q, "find_call_stmt_in_stmt: the call nested in `{ while (..) call }` is found iff the cursor is inside it, with the accumulated Reference offset", "block with one statement; symbolic base/statement/call offsets (<=2), call length 1..2, cursor; 7 adjacent one-byte tokens", timeout=1200, mem_gb=24),
        H("features::signature_help::__verif::c14_enclosing_call_else", Q, "find_call_stmt_in_stmt: the call nested in `{ if (..) ; else call }` is found iff the cursor is inside it, with the accumulated Reference offset", "block with one statement; symbolic base/statement/call offsets (<=2), call length 1..2, cursor; 7 adjacent one-byte tokens", timeout=1200, mem_gb=24),
        H("features::signature_help::__verif::c14_enclosing_call_proc", QT, "find_call_stmt: a call in the body of a procedure that starts at a symbolic token offset is found iff the cursor is inside it, with the absolute offset", "procedure with one call statement; symbolic procedure and statement offsets (<=3), call length 1..2, cursor", timeout=1200, mem_gb=24),
        H("features::signature_help::__verif::c14_enclosing_call_if_t", T, "find_call_stmt_in_stmt: call nested in `{ if (..) call }` found iff the cursor is inside it, accumulated Reference offset", "symbolic base/statement/call offsets <= 3, call length 1..3, cursor; 12 adjacent one-byte tokens", timeout=3600, mem_gb=30),
        H("features::signature_help::__verif::c14_enclosing_call_while_t", T, "find_call_stmt_in_stmt: call nested in `{ while (..) call }` found iff the cursor is inside it, accumulated Reference offset", "symbolic base/statement/call offsets <= 3, call length 1..3, cursor; 12 adjacent one-byte tokens", timeout=3600, mem_gb=30),
        H("features::signature_help::__verif::c14_enclosing_call_else_t", T, "find_call_stmt_in_stmt: call nested in `{ if (..) ; else call }` found iff the cursor is inside it, accumulated Reference offset", "symbolic base/statement/call offsets <= 3, call length 1..3, cursor; 12 adjacent one-byte tokens", timeout=3600, mem_gb=30),
        H("features::signature_help::__verif::c14_twin_must_fail", QT, "vacuity twin", "", expect="fail", timeout=600),
    ],
)

# --------------------------------------------------------------------------- C15
PROPERTIES["C15"] = dict(
    crate_dir="lsp4spl",
    attach={"document.rs": "lsp4spl/src/document.rs", "semantic_tokens.rs": "lsp4spl/src/features/semantic_tokens.rs"},
    functions={"lsp4spl/src/features/semantic_tokens.rs": ["collect_error", "collect_type_dec", "collect_proc_dec", "map_token", "create_semantic_token"],
               "lsp4spl/src/document.rs": ["as_position"]},
    explanation=(
        "The real map_token / create_semantic_token (with the real document::as_position) are executed symbolically on an "
        "arbitrary valid UTF-8 text with two tokens of symbolic kind on symbolic char-boundary ranges (chain); the real "
        "collect_error / collect_type_dec / collect_proc_dec (empty symbol table) are executed on a concrete 13-byte text "
        "(ASCII, astral, 2-byte, two lines) with one token of symbolic kind and range per declaration, over two consecutive "
        "declarations that share previous_token_pos exactly as semantic_tokens() does. CBMC decides that the delta-encoded stream decodes to the LSP (UTF-16) positions of "
        "precisely the tokens carrying a lexical class, in order, that `length` is the UTF-16 length of the token text, "
        "that the class index addresses the right entry of the announced legend, and that no u32 subtraction underflows. "
        "One further harness (S4) decides the `declaration` modifier on the name of a type declaration; it FAILS on the pinned tree (token-index range compared with a byte range) - "
        "a recorded known finding (known_findings.txt, class decl_modifier_units), printed as KNOWN-FINDING."),
    assumptions=[
        "token kinds are decoupled from the text (any kind on any char-boundary range): an over-approximation of what the lexer produces",
        "tokens are increasing and non-overlapping, on char boundaries, inside the text (what C06 guarantees for the lexer)",
        "texts with a lone CR are assumed away (shared text generator of C08)",
        "binding kinds of RESOLVED identifiers and the declaration modifier need a populated symbol table (HashMap): outside; collect_proc_dec is run with an EMPTY GlobalTable",
        "environment stub (one harness, c15_s1_procdec_across): std RandomState::new() (OS randomness via syscall) replaced by arbitrary symbolic keys",
        "color-eyre replaced by a compile-only stand-in; harness-owned values are mem::forget-ed",
        "trusted: kani-compiler, CBMC, CaDiCaL",
    ],
    outside=["texts longer than the byte bound, more tokens than the bound, more than two consecutive declarations",
             "classification of RESOLVED identifiers in collect_proc_dec (needs a populated LookupTable) and the declaration modifier"],
    harnesses=[
        H("features::semantic_tokens::__verif::c15_s1_chain_q", Q, "create_semantic_token/map_token: delta of two consecutive classified tokens decodes to their LSP positions; UTF-16 length", "any valid UTF-8 text <= 4 bytes, 2 tokens on symbolic char-boundary ranges; unwind 6", timeout=1200),
        H("features::semantic_tokens::__verif::c15_s1_collect_across", QT, "real collect_error on two consecutive declarations sharing previous_token_pos", "concrete 13-byte text (ASCII, astral, 2-byte, 2 lines), one token of symbolic kind/range per declaration; unwind 16", timeout=1500, mem_gb=24),
        H("features::semantic_tokens::__verif::c15_s1_typedec_across", QT, "real collect_type_dec on two consecutive type declarations sharing previous_token_pos; identifiers classified as TYPE", "concrete 13-byte text, one token of symbolic kind/range per declaration (name: None)", timeout=1500, mem_gb=24),
        H("features::semantic_tokens::__verif::c15_s1_procdec_across", QT, "real collect_proc_dec (empty symbol table) on two consecutive procedure declarations sharing previous_token_pos", "concrete 13-byte text, one token of symbolic kind/range per declaration", timeout=1500, mem_gb=24),
        H("features::semantic_tokens::__verif::c15_s3_all_kinds", QT, "map_token for each of the 36 token kinds", "one token, all kinds, symbolic literal values", timeout=600),
        H("features::semantic_tokens::__verif::c15_s4_decl_modifier_typedec", QT, "declaration modifier exactly on the token whose INDEX is the type declaration's name range (KNOWN FINDING: fails on the pinned tree)", "concrete 13-byte text, two identifier tokens on symbolic ranges, name index 0 or 1", timeout=900, mem_gb=20, known_class="decl_modifier_units"),
        H("features::semantic_tokens::__verif::c15_twin_must_fail", QT, "vacuity twin", "", expect="fail", timeout=600),
        H("features::semantic_tokens::__verif::c15_s1_chain_t", T, "same as s1_chain_q", "any valid UTF-8 text <= 8 bytes, 2 tokens on symbolic char-boundary ranges; unwind 10", timeout=3600, mem_gb=24),
    ],
)

# --------------------------------------------------------------------------- C06
PROPERTIES["C06"] = dict(
    crate_dir="spl_frontend",
    attach={"lexer_utility.rs": "spl_frontend/src/lexer/utility.rs"},
    functions={"spl_frontend/src/lexer/utility.rs": ["is_alpha_numeric"]},
    explanation=(
        "The real lexer::utility::is_alpha_numeric - the predicate that decides which characters extend an identifier and "
        "which characters end a keyword - is executed symbolically on an arbitrary ASCII char; CBMC decides equality with "
        "the SPL identifier character class [A-Za-z0-9_]. This is ONE clause of C06 (keywords only as whole words / "
        "identifier alphabet); tiling, longest match, literal values and comments need lexer::lex, which is out of reach "
        "of bounded model checking here (DESIGN 1.1)."),
    assumptions=["only ASCII characters are asserted (valid SPL outside comments and char literals is ASCII)",
                 "trusted: kani-compiler, CBMC, CaDiCaL"],
    outside=["everything of C06 that needs lexer::lex: tiling, EOF token, longest match, literal values, comments",
             "non-ASCII characters (the implementation truncates `c as u8`; observed, not asserted)"],
    harnesses=[
        H("lexer::utility::__verif::c06_alnum_class_ascii", QT, "is_alpha_numeric == [A-Za-z0-9_] on ASCII", "all 128 ASCII scalar values (symbolic char)", timeout=600),
        H("lexer::utility::__verif::c06_twin_must_fail", QT, "vacuity twin", "", expect="fail", timeout=600),
    ],
)

# --------------------------------------------------------------------------- C01
PROPERTIES["C01"] = dict(
    crate_dir="spl_frontend",
    attach={"tokens.rs": "spl_frontend/src/tokens.rs",
            "parser_utility.rs": "spl_frontend/src/parser/utility.rs",
            "parser.rs": "spl_frontend/src/parser.rs",
            "ast_traverser.rs": "spl_frontend/src/ast/ast_info_traverser.rs"},
    functions={"spl_frontend/src/ast/ast_info_traverser.rs": ["impl AstInfoTraverser for Expression::traverse_mut", "impl AstInfoTraverser for Variable::traverse_mut", "impl AstInfoTraverser for ArrayAccess::traverse_mut", "impl AstInfoTraverser for UnaryExpression::traverse_mut", "impl AstInfoTraverser for BracketedExpression::traverse_mut", "impl AstInfoTraverser for BinaryExpression::traverse_mut"],
               "spl_frontend/src/tokens.rs": ["new_token_pos", "out_of_range", "deletes", "overlaps", "location_offset", "advance", "get_old_reference"],
               "spl_frontend/src/parser/utility.rs": ["affected", "info"],
               "spl_frontend/src/parser.rs": ["impl<T: Parser> Parser for Reference<T>::parse"]},
    explanation=(
        "MECHANISM LEVEL ONLY. lexer::update and the real node parsers (nom) cannot be executed symbolically here, so this "
        "check decides the generic reuse machinery every node parser is built from, compiled from /repo: TokenChange::"
        "{new_token_pos,out_of_range,deletes,overlaps}: exact new index of surviving tokens, no over/underflow, and the predicates never MISS a change (A1; the conservative direction is deliberately not asserted); the real "
        "affected() instantiated with a harness node type Leaf = ';'* (maximal, possibly empty run: total parser, one token of look-ahead) on an arbitrary old token "
        "array, an arbitrary truthful window with up to 2 inserted tokens, an arbitrary old node and every reachable parser "
        "position: whenever the old node is REUSED, a parse from scratch at that position yields the same node and rest "
        "(A2); a reused node keeps exactly its lexical/syntax messages (A3); the real traverse_mut of Expression/Variable trees, through which affected() strips a reused REAL node, visits every AstInfo of the tree, for seven concrete tree shapes with symbolic ranges/offsets (A3t); info() records node ranges relative to the enclosing Reference in the new stream and keeps the caller's diagnostics apart (A4i); Reference::parse, from scratch, restores the caller's frame "
        "and computes offset relative to the enclosing Reference in the new stream (A4). "
        "A pass is necessary, not sufficient, for C01."),
    assumptions=[
        "node type is the harness-defined Leaf (';'*), not a real AST node; real node parsers, many()/parse_list(), the lexer window and the symbol table are NOT covered",
        "pre-states: parser positions a real caller can be in (node in the unchanged head => at the node; behind the window => inside the insertion or at/after the node's new position; start deleted => anywhere from the window start); a gap of unconsumed surviving tokens in front of the node is excluded (caller's duty)",
        "token kinds from {';', ',', '(', Eof}; the window never contains Eof (lexer::update pops it)",
        "one edit step from an arbitrary old state (inductive-step formulation); histories are not unrolled",
        "the frame condition of Reference::parse on failure WITHOUT an old node is deliberately not asserted (DESIGN §5)",
        "A3t: one harness per concrete tree shape (int, error, named variable, -1, (1), 1+1, a[1]); only the stored token ranges / Reference offsets are symbolic; a tree of symbolic shape, the nested shape (-1)+a[1] and Statement trees gave no verdict in 8-10 min and are not registered",
        "harness-owned values are mem::forget-ed; trusted: kani-compiler, CBMC, CaDiCaL",
    ],
    outside=["more old tokens / inserted tokens than the bound", "real AST node parsers and their look-ahead", "many(), parse_list(), handle_insertions (list resynchronisation)", "lexer::update", "table::build / analyze"],
    harnesses=[
        H("tokens::__verif::c01_a1_new_token_pos", QT, "new index of surviving tokens; no over/underflow", "all usize values up to 2^32", timeout=600),
        H("tokens::__verif::c01_a1_out_of_range", QT, "p > ds+ins => out_of_range(p) (the direction and region reuse soundness needs); total", "window values up to 2^32, positions up to 2^33", timeout=600),
        H("tokens::__verif::c01_a1_deletes_overlaps", QT, "a deleted token inside R, or tokens inserted strictly inside R => overlaps(R) (the direction reuse soundness needs); deletes total", "all usize values up to 2^32", timeout=600),
        H("tokens::__verif::c01_a1_twin_must_fail", QT, "vacuity twin", "", expect="fail", timeout=600),
        H("parser::utility::__verif::c01_a2_q", Q, "affected(): reuse => same as parse from scratch", "4 old tokens + Eof of symbolic kind, any window, <=2 inserted tokens, any old ';'-run node, any reachable position; unwind 3 (loop-free harness)", timeout=1200, mem_gb=20),
        H("parser::utility::__verif::c01_a3_messages", QT, "reused node keeps lexical/syntax messages, drops build/semantic ones", "2 messages of symbolic class", timeout=900),
        H("parser::utility::__verif::c01_a4_info", QT, "info(): node range relative to the enclosing Reference in the new stream; buffered diagnostics go to the node; caller's buffer and frame restored", "4 old tokens + Eof, any window, any position and frame, 0..3 tokens consumed", timeout=900, mem_gb=20),
        H("parser::utility::__verif::c01_a2_twin_must_fail", QT, "vacuity twin", "", expect="fail", timeout=900),
        H("parser::__verif::c01_a4_scratch", QT, "Reference::parse frame conditions and offset: no old node", "concrete window/position; 4 old tokens + Eof of symbolic kind, symbolic enclosing frame and old offsets", timeout=900),
        H("parser::__verif::c01_a4_twin_must_fail", QT, "vacuity twin", "", expect="fail", timeout=900),
        H("ast::ast_info_traverser::__verif::c01_a3t_expr_int", QT, "real traverse_mut visits EVERY AstInfo of the tree (so affected()'s message stripping reaches every nested node of a reused tree)", "one concrete tree shape `int literal`; token ranges and Reference offsets symbolic; in-place, no Clone", timeout=600, mem_gb=12),
        H("ast::ast_info_traverser::__verif::c01_a3t_expr_error", QT, "real traverse_mut visits EVERY AstInfo of the tree (so affected()'s message stripping reaches every nested node of a reused tree)", "one concrete tree shape `error node`; token ranges and Reference offsets symbolic; in-place, no Clone", timeout=600, mem_gb=12),
        H("ast::ast_info_traverser::__verif::c01_a3t_expr_unary", QT, "real traverse_mut visits EVERY AstInfo of the tree (so affected()'s message stripping reaches every nested node of a reused tree)", "one concrete tree shape `-1`; token ranges and Reference offsets symbolic; in-place, no Clone", timeout=600, mem_gb=12),
        H("ast::ast_info_traverser::__verif::c01_a3t_expr_bracketed", QT, "real traverse_mut visits EVERY AstInfo of the tree (so affected()'s message stripping reaches every nested node of a reused tree)", "one concrete tree shape `(1)`; token ranges and Reference offsets symbolic; in-place, no Clone", timeout=600, mem_gb=12),
        H("ast::ast_info_traverser::__verif::c01_a3t_expr_binary", QT, "real traverse_mut visits EVERY AstInfo of the tree (so affected()'s message stripping reaches every nested node of a reused tree)", "one concrete tree shape `1+1`; token ranges and Reference offsets symbolic; in-place, no Clone", timeout=600, mem_gb=12),
        H("ast::ast_info_traverser::__verif::c01_a3t_expr_named", QT, "real traverse_mut visits EVERY AstInfo of the tree (so affected()'s message stripping reaches every nested node of a reused tree)", "one concrete tree shape `a`; token ranges and Reference offsets symbolic; in-place, no Clone", timeout=600, mem_gb=12),
        H("ast::ast_info_traverser::__verif::c01_a3t_expr_array_access", QT, "real traverse_mut visits EVERY AstInfo of the tree (so affected()'s message stripping reaches every nested node of a reused tree)", "one concrete tree shape `a[1]`; token ranges and Reference offsets symbolic; in-place, no Clone", timeout=600, mem_gb=12),
        H("ast::ast_info_traverser::__verif::c01_a3t_twin_must_fail", QT, "vacuity twin", "", expect="fail", timeout=600),
        H("parser::utility::__verif::c01_a2_t", T, "affected(): reuse => same as parse from scratch", "8 old tokens + Eof, <=2 inserted; unwind 3 (loop-free harness)", timeout=5400, mem_gb=30),
    ],
)
