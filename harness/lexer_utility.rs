// Harness for spl_frontend/src/lexer/utility.rs (property C06, character-class clause only).
// is_alpha_numeric decides which characters extend an identifier (alpha_numeric0) and which
// characters terminate a keyword (lex_keyword!'s peek), i.e. "keywords only as whole words".
// Asserted on the alphabet valid SPL source is written in (ASCII); non-ASCII is observed only
// (see DESIGN §3/C06: asserting the full-Unicode class would demand more than C06 states).

#[kani::proof]
fn c06_alnum_class_ascii() {
    let c: char = kani::any();
    kani::assume(c.is_ascii());
    kani::cover!(c == '_', "underscore");
    kani::cover!(c == 'z', "lower-case letter");
    kani::cover!(c == '0', "digit");
    kani::cover!(c == '-', "non-identifier symbol");
    let want = c.is_ascii_alphanumeric() || c == '_';
    assert!(is_alpha_numeric(c) == want, "C06 identifier / keyword-boundary character class (ASCII)");
}

#[kani::proof]
fn c06_twin_must_fail() {
    let c: char = kani::any();
    kani::assume(c.is_ascii());
    assert!(!is_alpha_numeric(c), "twin: reachable end of harness (expected to FAIL)");
}
