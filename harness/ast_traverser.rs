// Harnesses for spl_frontend/src/ast/ast_info_traverser.rs (property C01, part A3t).
// Appended as `#[cfg(kani)] mod __verif { use super::*; ... }`.
//
// affected() strips the build/semantic diagnostics of a REUSED node by calling the node type's own
// `traverse_mut(remove_messages)`.  A3 (parser_utility.rs) decides the stripping for the harness node
// type; whether it reaches every nested node of a REAL tree is the business of the hand-written
// AstInfoTraverser impls.  A3t decides exactly that, on real Expression / Variable / Statement values:
//     after `tree.traverse_mut(mark)` EVERY AstInfo of the tree carries the mark
// (if one were skipped, a stale build/semantic diagnostic attached to it would survive the reuse and
// the incremental result would differ from the analysis from scratch).
// One harness per tree SHAPE (a tree of symbolic shape makes CBMC unroll the merged recursion to the
// unwind limit on every branch: no verdict in 8 min / 3 GB); symbolic are the token ranges and
// Reference offsets stored in the tree (they must not influence the traversal) - so this part is close
// to a solver-executed test per shape, and is reported as such.  The tree is mutated in place: no Clone,
// no diagnostics vectors, ManuallyDrop (the deep Clone plus Vec<SplError> of the real call site
// exhausted 24 GB, DESIGN 1.1).  Depth <= 3 below the root.

use crate::ast::*;

const MARK: usize = 77;

fn mark(info: &mut AstInfo) {
    info.range = MARK..MARK;
}

fn marked(info: &AstInfo) -> bool {
    info.range.start == MARK && info.range.end == MARK
}

fn sym(at: usize) -> usize {
    // symbolic token position / offset (anything but the mark)
    let d: usize = kani::any();
    kani::assume(d < 50);
    at + d
}

fn int(at: usize) -> Expression {
    let at = sym(at);
    Expression::IntLiteral(IntLiteral { value: Some(1), info: AstInfo::new(at..at + 1) })
}

fn named(at: usize) -> Variable {
    Variable::NamedVariable(Identifier { value: String::new(), info: AstInfo::new(at..at + 1) })
}

fn refd(e: Expression, offset: usize) -> Reference<Expression> {
    let offset = sym(offset);
    Reference { reference: e, offset }
}

/// every AstInfo of an expression tree carries the mark (independent walk written against ast.rs)
fn expr_all_marked(e: &Expression) -> bool {
    match e {
        Expression::IntLiteral(i) => marked(&i.info),
        Expression::Error(info) => marked(info),
        Expression::Unary(u) => marked(&u.info) && expr_all_marked(&u.expr),
        Expression::Bracketed(b) => marked(&b.info) && expr_all_marked(&b.expr),
        Expression::Binary(b) => marked(&b.info) && expr_all_marked(&b.lhs) && expr_all_marked(&b.rhs),
        Expression::Variable(v) => var_all_marked(v),
    }
}

fn var_all_marked(v: &Variable) -> bool {
    match v {
        Variable::NamedVariable(id) => marked(&id.info),
        Variable::ArrayAccess(a) => {
            marked(&a.info)
                && var_all_marked(&a.array)
                && match &a.index {
                    Some(ix) => expr_all_marked(&ix.reference),
                    None => true,
                }
        }
    }
}

fn build_expr(shape: u8) -> Expression {
    match shape {
        0 => int(0),
        1 => Expression::Error(AstInfo::new(0..1)),
        2 => Expression::Unary(UnaryExpression { operator: Operator::Sub, expr: Box::new(int(1)), info: AstInfo::new(0..2) }),
        3 => Expression::Bracketed(BracketedExpression { expr: Box::new(int(1)), info: AstInfo::new(0..3) }),
        4 => Expression::Binary(BinaryExpression { operator: Operator::Add, lhs: Box::new(int(0)), rhs: Box::new(int(2)), info: AstInfo::new(0..3) }),
        5 => Expression::Variable(named(0)),
        6 => Expression::Variable(Variable::ArrayAccess(ArrayAccess {
            array: Box::new(named(0)),
            index: Some(Box::new(refd(int(0), 2))),
            info: AstInfo::new(0..4),
        })),
        // ( - 1 ) + a[1]  : the shape of the earlier (infeasible) A3 attempt on real trees
        _ => Expression::Binary(BinaryExpression {
            operator: Operator::Add,
            lhs: Box::new(Expression::Bracketed(BracketedExpression {
                expr: Box::new(Expression::Unary(UnaryExpression { operator: Operator::Sub, expr: Box::new(int(2)), info: AstInfo::new(1..3) })),
                info: AstInfo::new(0..4),
            })),
            rhs: Box::new(Expression::Variable(Variable::ArrayAccess(ArrayAccess {
                array: Box::new(named(5)),
                index: Some(Box::new(refd(int(0), 7))),
                info: AstInfo::new(5..9),
            }))),
            info: AstInfo::new(0..9),
        }),
    }
}

fn a3t_expression<const SHAPE: u8>() {
    let mut e = std::mem::ManuallyDrop::new(build_expr(SHAPE));
    e.traverse_mut(mark);
    assert!(expr_all_marked(&e), "C01/A3t traverse_mut must visit every AstInfo of an expression tree (else stale diagnostics survive reuse)");
}

macro_rules! expr_harness {
    ($name:ident, $shape:expr, $unwind:expr) => {
        #[kani::proof]
        #[kani::unwind($unwind)]
        fn $name() {
            a3t_expression::<$shape>()
        }
    };
}
expr_harness!(c01_a3t_expr_int, 0, 2);
expr_harness!(c01_a3t_expr_error, 1, 2);
expr_harness!(c01_a3t_expr_unary, 2, 3);
expr_harness!(c01_a3t_expr_bracketed, 3, 3);
expr_harness!(c01_a3t_expr_binary, 4, 3);
expr_harness!(c01_a3t_expr_named, 5, 2);
expr_harness!(c01_a3t_expr_array_access, 6, 3);
expr_harness!(c01_a3t_expr_nested, 7, 5);

/// NOT REGISTERED (no verdict): every Statement shape below, including the lean ones with leaf children only
/// (`a := 1`, `f(1)`, `if (1) ; else ;`, `while (1) ;`, `{ ; <error> }`), timed out (420-600 s): the 7-arm
/// Statement dispatch times the Expression/Variable families is unrolled in every arm.  Kept for reference.
/// Statement shapes: assignment `a[1] := 1 + 1`, call `f(1, -1)`, `if (1 < 1) a := 1 else ;`,
/// `while (1) { a := 1 }`
fn assignment(with_index: bool) -> Statement {
    let variable = if with_index {
        Variable::ArrayAccess(ArrayAccess { array: Box::new(named(0)), index: Some(Box::new(refd(int(0), 2))), info: AstInfo::new(0..4) })
    } else {
        named(0)
    };
    Statement::Assignment(Assignment {
        variable,
        expr: Some(refd(build_expr(4), 2)),
        info: AstInfo::new(0..6),
    })
}

fn stmt_all_marked(s: &Statement) -> bool {
    match s {
        Statement::Assignment(a) => {
            marked(&a.info)
                && var_all_marked(&a.variable)
                && match &a.expr {
                    Some(e) => expr_all_marked(&e.reference),
                    None => true,
                }
        }
        Statement::Call(c) => marked(&c.info) && marked(&c.name.info) && c.arguments.iter().all(|a| expr_all_marked(&a.reference)),
        Statement::If(i) => {
            marked(&i.info)
                && match &i.condition {
                    Some(c) => expr_all_marked(&c.reference),
                    None => true,
                }
                && match &i.if_branch {
                    Some(b) => stmt_all_marked(&b.reference),
                    None => true,
                }
                && match &i.else_branch {
                    Some(b) => stmt_all_marked(&b.reference),
                    None => true,
                }
        }
        Statement::While(w) => {
            marked(&w.info)
                && match &w.condition {
                    Some(c) => expr_all_marked(&c.reference),
                    None => true,
                }
                && match &w.statement {
                    Some(b) => stmt_all_marked(&b.reference),
                    None => true,
                }
        }
        Statement::Block(b) => marked(&b.info) && b.statements.iter().all(|s| stmt_all_marked(&s.reference)),
        Statement::Empty(info) => marked(info),
        Statement::Error(info) => marked(info),
    }
}

fn build_stmt(shape: u8) -> Statement {
    match shape {
        0 => assignment(false),
        1 => assignment(true),
        2 => Statement::Call(CallStatement {
            name: Identifier { value: String::new(), info: AstInfo::new(0..1) },
            arguments: vec![refd(int(0), 2), refd(build_expr(2), 4)],
            info: AstInfo::new(0..8),
        }),
        3 => Statement::If(IfStatement {
            condition: Some(refd(build_expr(4), 2)),
            if_branch: Some(Box::new(Reference { reference: assignment(false), offset: 6 })),
            else_branch: Some(Box::new(Reference { reference: Statement::Empty(AstInfo::new(0..1)), offset: 13 })),
            info: AstInfo::new(0..14),
        }),
        // lean shapes (leaf children only): the statement-level impls with the smallest recursion depth
        5 => Statement::Assignment(Assignment { variable: named(0), expr: Some(refd(int(0), 2)), info: AstInfo::new(0..4) }),
        6 => Statement::Call(CallStatement {
            name: Identifier { value: String::new(), info: AstInfo::new(0..1) },
            arguments: vec![refd(int(0), 2)],
            info: AstInfo::new(0..5),
        }),
        7 => Statement::If(IfStatement {
            condition: Some(refd(int(0), 2)),
            if_branch: Some(Box::new(Reference { reference: Statement::Empty(AstInfo::new(0..1)), offset: 4 })),
            else_branch: Some(Box::new(Reference { reference: Statement::Empty(AstInfo::new(0..1)), offset: 6 })),
            info: AstInfo::new(0..7),
        }),
        8 => Statement::While(WhileStatement {
            condition: Some(refd(int(0), 2)),
            statement: Some(Box::new(Reference { reference: Statement::Empty(AstInfo::new(0..1)), offset: 4 })),
            info: AstInfo::new(0..5),
        }),
        9 => Statement::Block(BlockStatement {
            statements: vec![Reference { reference: Statement::Empty(AstInfo::new(0..1)), offset: 1 }, Reference { reference: Statement::Error(AstInfo::new(0..1)), offset: 2 }],
            info: AstInfo::new(0..4),
        }),
        _ => Statement::While(WhileStatement {
            condition: Some(refd(int(0), 2)),
            statement: Some(Box::new(Reference {
                reference: Statement::Block(BlockStatement {
                    statements: vec![Reference { reference: assignment(false), offset: 1 }],
                    info: AstInfo::new(0..8),
                }),
                offset: 4,
            })),
            info: AstInfo::new(0..12),
        }),
    }
}

fn a3t_statement<const SHAPE: u8>() {
    let mut st = std::mem::ManuallyDrop::new(build_stmt(SHAPE));
    st.traverse_mut(mark);
    assert!(stmt_all_marked(&st), "C01/A3t traverse_mut must visit every AstInfo of a statement tree (else stale diagnostics survive reuse)");
}

macro_rules! stmt_harness {
    ($name:ident, $shape:expr, $unwind:expr) => {
        #[kani::proof]
        #[kani::unwind($unwind)]
        fn $name() {
            a3t_statement::<$shape>()
        }
    };
}
stmt_harness!(c01_a3t_stmt_assign, 0, 3);
stmt_harness!(c01_a3t_stmt_assign_indexed, 1, 3);
stmt_harness!(c01_a3t_stmt_call, 2, 3);
stmt_harness!(c01_a3t_stmt_if_else, 3, 3);
stmt_harness!(c01_a3t_stmt_while_block, 4, 4);
stmt_harness!(c01_a3t_stmt_lean_assign, 5, 2);
stmt_harness!(c01_a3t_stmt_lean_call, 6, 3);
stmt_harness!(c01_a3t_stmt_lean_if_else, 7, 3);
stmt_harness!(c01_a3t_stmt_lean_while, 8, 3);
stmt_harness!(c01_a3t_stmt_lean_block, 9, 4);

#[kani::proof]
#[kani::unwind(3)]
fn c01_a3t_twin_must_fail() {
    let mut e = std::mem::ManuallyDrop::new(build_expr(2));
    e.traverse_mut(mark);
    assert!(!expr_all_marked(&e), "twin: reachable end of harness (expected to FAIL)");
}
