// Harnesses for spl_frontend/src/parser.rs (property C01, part A4: the Reference frame bookkeeping
// and expect()'s retry, through the REAL `impl Parser for Reference<T>` and the real
// utility::{expect, info, affected}, instantiated with the harness node `Leaf` (";"+), see
// harness/parser_utility.rs.  Appended as `#[cfg(kani)] mod __verif { use super::*; ... }`.
//
// Decided:
//  A4   Reference::<Leaf>::parse(this, input): on success the frame of the caller is restored
//       (reference_pos, inc_references) and `offset` is the distance, in the NEW stream, between the
//       node and the enclosing Reference; on failure with an old node the frame is restored too.
//       (On failure WITHOUT an old node the implementation pops the caller's entry; this was examined
//       natively and is not, by itself, an observable defect - DESIGN §5 - so it is not asserted.)
//  A4b  expect(Some(old), Reference::parse) == expect(None, Reference::parse) on the same stream
//       (same presence, same node range and offset, same rest position, same diagnostics) for every
//       reachable pre-state: the retry-without-old-node path makes reuse invisible.

use crate::parser::utility::__verif::{build_tokens, sym_edit, Leaf, K_SEMIC, M};
use crate::tokens::TokenChange;

fn vec_is(v: &Vec<usize>, a: usize) -> bool {
    v.len() == 1 && v[0] == a
}

fn a4<const N: usize>() {
    let (_old, new, new_len, ds, de, ins) = sym_edit::<N>(1);
    let new_toks = build_tokens(&new);
    let p: usize = kani::any();
    let rp: usize = kani::any(); // start of the enclosing Reference in the new stream
    kani::assume(p <= new_len && rp <= p);
    let outer_old: usize = kani::any(); // old offset of the enclosing Reference (on the stack)
    kani::assume(outer_old <= N);
    let has_old: bool = kani::any();
    let old_off: usize = kani::any();
    let old_len: usize = kani::any();
    kani::assume(old_off <= N && old_len >= 1 && outer_old + old_off + old_len <= N);
    let old_ref = Reference::new(Leaf { info: AstInfo::new(0..old_len) }, old_off);
    let mut stream = TokenStream::new_with_change(&new_toks[..new_len], TokenChange::new(ds..de, ins)).advance(p);
    stream.reference_pos = rp;
    stream.inc_references = vec![outer_old];
    let this = if has_old { Some(&old_ref) } else { None };
    let r = Reference::<Leaf>::parse(this, stream);
    kani::cover!(r.is_ok() && has_old, "success with an old node");
    kani::cover!(r.is_ok() && !has_old, "success from scratch");
    kani::cover!(r.is_err() && has_old, "failure with an old node");
    match r {
        Ok((rest, node)) => {
            assert!(rest.reference_pos == rp, "C01/A4 reference_pos of the enclosing frame must be restored on success");
            assert!(vec_is(&rest.inc_references, outer_old), "C01/A4 the stack of old reference offsets must be restored on success");
            assert!(node.offset == p - rp, "C01/A4 Reference.offset must be the distance to the enclosing Reference in the new stream");
            assert!(node.reference.info.range.start == 0, "C01/A4 a node directly under a Reference starts at 0 of its own frame");
            assert!(rest.location_offset() == p + node.reference.info.range.len(), "C01/A4 stream advanced by the node's length");
            std::mem::forget(rest);
            std::mem::forget(node);
        }
        Err(nom::Err::Error(e)) => {
            assert!(e.input.reference_pos == rp, "C01/A4 reference_pos of the enclosing frame must be restored on failure");
            if has_old {
                assert!(vec_is(&e.input.inc_references, outer_old), "C01/A4 the stack of old reference offsets must be restored on failure");
            }
            std::mem::forget(e);
        }
        Err(_) => assert!(false, "C01/A4 unexpected nom failure kind"),
    }
    std::mem::forget(old_ref);
}

#[kani::proof]
#[kani::unwind(8)]
fn c01_a4_q() {
    a4::<4>()
}

/// A4b: expect() with an old node is observationally equal to expect() without
fn a4b<const N: usize>() {
    let (old, new, new_len, ds, de, ins) = sym_edit::<N>(2);
    // old node: maximal run of `;` at old[s..e), directly under its own Reference
    let s: usize = kani::any();
    let e: usize = kani::any();
    kani::assume(s < e && e <= N);
    let mut i = 0;
    while i < N {
        if s <= i && i < e {
            kani::assume(old[i] == K_SEMIC);
        }
        i += 1;
    }
    kani::assume(old[e] != K_SEMIC);
    let outer_old: usize = kani::any();
    kani::assume(outer_old <= s);
    let old_ref = Reference::new(Leaf { info: AstInfo::new(0..e - s) }, s - outer_old);
    // reachable positions, see harness/parser_utility.rs
    let p: usize = kani::any();
    let rp: usize = kani::any();
    kani::assume(p <= new_len && rp <= p);
    let s_new = if s >= de { s + ins - (de - ds) } else { s };
    if s < ds {
        kani::assume(p == s);
    } else if s >= de {
        kani::assume((ds <= p && p < ds + ins) || p >= s_new);
    } else {
        kani::assume(p >= ds);
    }
    let new_toks = build_tokens(&new);
    let mut stream = TokenStream::new_with_change(&new_toks[..new_len], TokenChange::new(ds..de, ins)).advance(p);
    stream.reference_pos = rp;
    stream.inc_references = vec![outer_old];
    let inc = expect(Some(&old_ref), Reference::<Leaf>::parse, ParseErrorMessage::MissingTrailingSemic)(stream.clone());
    let scr = expect(None, Reference::<Leaf>::parse, ParseErrorMessage::MissingTrailingSemic)(stream);
    match (inc, scr) {
        (Ok((ri, oi)), Ok((rs, os))) => {
            kani::cover!(oi.is_some() && ds < de && de <= s, "node behind a deleting window accepted");
            kani::cover!(oi.is_none(), "nothing parsable: diagnostic recorded");
            assert!(oi.is_some() == os.is_some(), "C01/A4b expect with an old node finds a node iff a parse from scratch does");
            assert!(ri.location_offset() == rs.location_offset(), "C01/A4b rest position differs from a parse from scratch");
            assert!(ri.error_buffer.len() == rs.error_buffer.len(), "C01/A4b diagnostics differ from a parse from scratch");
            if ri.error_buffer.len() == 1 {
                assert!(ri.error_buffer[0].0 == rs.error_buffer[0].0, "C01/A4b diagnostic placed differently from a parse from scratch");
            }
            assert!(ri.reference_pos == rp && rs.reference_pos == rp, "C01/A4b frame restored");
            if let (Some(a), Some(b)) = (&oi, &os) {
                assert!(a.offset == b.offset && a.reference.info.range == b.reference.info.range, "C01/A4b node differs from the node parsed from scratch");
            }
            std::mem::forget(ri);
            std::mem::forget(rs);
            std::mem::forget(oi);
            std::mem::forget(os);
        }
        _ => assert!(false, "C01/A4b expect never fails"),
    }
    std::mem::forget(old_ref);
}

#[kani::proof]
#[kani::unwind(8)]
fn c01_a4b_q() {
    a4b::<4>()
}

#[kani::proof]
#[kani::unwind(11)]
fn c01_a4b_t() {
    a4b::<6>()
}

#[kani::proof]
#[kani::unwind(8)]
fn c01_a4_twin_must_fail() {
    let (_old, new, new_len, ds, de, ins) = sym_edit::<3>(1);
    let new_toks = build_tokens(&new);
    let p: usize = kani::any();
    kani::assume(p <= new_len);
    let stream = TokenStream::new_with_change(&new_toks[..new_len], TokenChange::new(ds..de, ins)).advance(p);
    let r = Reference::<Leaf>::parse(None, stream);
    let ok = r.is_ok();
    std::mem::forget(r);
    assert!(!ok, "twin: reachable end of harness (expected to FAIL)");
}
