// Harnesses for spl_frontend/src/parser.rs (property C01, part A4: the Reference frame bookkeeping
// of the REAL `impl Parser for Reference<T>`, instantiated with the harness node `Leaf` (";"*), see
// harness/parser_utility.rs.  Appended as `#[cfg(kani)] mod __verif { use super::*; ... }`.
//
// Decided (registered): A4 for the configuration WITHOUT an old node (CONFIGS[4]):
//   Reference::<Leaf>::parse(None, input): the frame of the caller is restored (reference_pos,
//   inc_references), `offset` is the distance, in the NEW stream, between the node and the enclosing
//   Reference, the node starts at 0 of its own frame, the stream advanced by the node's length.
// Tried, measured, NOT registered (see the note further down and DESIGN 1.5): the four
// configurations WITH an old node (CONFIGS[0..4], kept as data); an expect() equivalence harness
// (A4b) was tried too and removed.
// (On failure WITHOUT an old node the implementation pops the caller's entry; this was examined
// natively and is not, by itself, an observable defect - DESIGN §3/C01 - so it is not asserted.)

use crate::parser::utility::__verif::{build_tokens, Leaf, K_EOF, K_OTHER, K_SEMIC, M};
use crate::tokens::TokenChange;

// Why the change window is CONCRETE here (it is symbolic in A2): Reference::parse and expect()
// `match` on the node parser's result; when that result is a symbolic Ok/Err merge, CBMC executes
// the `Err(_) => panic!` arm's drop glue (TokenStream -> Vec<SplError> -> nested String enums) on
// merged values: 10^7 SAT variables, no verdict in 25 min.  With a concrete window and position
// the outcome class (reused / affected / re-parsed / from scratch) is fixed per configuration while
// token kinds, the enclosing frame and the old offsets stay symbolic.

#[derive(Clone, Copy)]
struct Cfg {
    ds: usize,
    de: usize,
    ins: usize,
    p: usize,     // parser position in the new stream
    s: usize,     // old absolute start of the old node
    len: usize,   // old node length
    has_old: bool,
}

/// 4 old tokens + Eof; new stream per configuration
const CONFIGS: [Cfg; 5] = [
    // reuse: insertion far behind the node
    Cfg { ds: 3, de: 3, ins: 1, p: 0, s: 0, len: 1, has_old: true },
    // affected: the node's token is deleted
    Cfg { ds: 1, de: 2, ins: 0, p: 1, s: 1, len: 1, has_old: true },
    // re-parse: insertion exactly at the node's look-ahead token
    Cfg { ds: 2, de: 2, ins: 1, p: 1, s: 1, len: 1, has_old: true },
    // reuse behind a shrinking window
    Cfg { ds: 0, de: 2, ins: 1, p: 1, s: 2, len: 2, has_old: true },
    // from scratch
    Cfg { ds: 1, de: 1, ins: 1, p: 2, s: 0, len: 1, has_old: false },
];

fn new_kinds(c: Cfg) -> ([u8; M], usize) {
    let raw: [u8; 6] = kani::any(); // configurations use 4 old tokens
    let mut k = [K_EOF; M];
    let new_len = 4 + 1 - (c.de - c.ds) + c.ins;
    macro_rules! set { ($($i:literal),*) => { $( if $i + 1 < new_len { kani::assume(raw[$i] <= K_OTHER); k[$i] = raw[$i]; } )* }; }
    set!(0, 1, 2, 3, 4, 5);
    (k, new_len)
}

fn vec_is(v: &Vec<usize>, a: usize) -> bool {
    v.len() == 1 && v[0] == a
}

fn a4(c: Cfg) {
    let (kinds, new_len) = new_kinds(c);
    let new_toks = build_tokens(&kinds);
    let rp: usize = kani::any(); // start of the enclosing Reference in the new stream
    kani::assume(rp <= c.p);
    let outer_old: usize = kani::any(); // old offset of the enclosing Reference (on the stack)
    kani::assume(outer_old <= c.s);
    let old_ref = Reference::new(Leaf { info: AstInfo::new(0..c.len) }, c.s - outer_old);
    let mut stream = TokenStream::new_with_change(&new_toks[..new_len], TokenChange::new(c.ds..c.de, c.ins)).advance(c.p);
    stream.reference_pos = rp;
    stream.inc_references = vec![outer_old];
    let this = if c.has_old { Some(&old_ref) } else { None };
    let r = Reference::<Leaf>::parse(this, stream);
    match &r {
        Ok((rest, node)) => {
            assert!(rest.reference_pos == rp, "C01/A4 reference_pos of the enclosing frame must be restored on success");
            assert!(vec_is(&rest.inc_references, outer_old), "C01/A4 the stack of old reference offsets must be restored on success");
            assert!(node.offset == c.p - rp, "C01/A4 Reference.offset must be the distance to the enclosing Reference in the new stream");
            assert!(node.reference.info.range.start == 0, "C01/A4 a node directly under a Reference starts at 0 of its own frame");
            assert!(rest.location_offset() == c.p + node.reference.info.range.len(), "C01/A4 stream advanced by the node's length");
        }
        Err(nom::Err::Error(e)) => {
            assert!(c.has_old, "C01/A4 the total leaf parser cannot fail from scratch");
            assert!(e.input.reference_pos == rp, "C01/A4 reference_pos of the enclosing frame must be restored on failure");
            assert!(vec_is(&e.input.inc_references, outer_old), "C01/A4 the stack of old reference offsets must be restored on failure");
            assert!(e.input.location_offset() == c.p, "C01/A4 a failed parse must not consume tokens");
        }
        Err(_) => assert!(false, "C01/A4 unexpected nom failure kind"),
    }
    std::mem::forget(r);
    std::mem::forget(old_ref);
}

#[kani::proof]
#[kani::unwind(3)]
fn c01_a4_scratch() {
    a4(CONFIGS[4]);
}

// The configurations with an old node (CONFIGS[0..4]) are kept as data above but are NOT registered
// (nor is any expect() harness): even with a concrete window the reuse decision of affected()
// depends on TokenStream::location_offset(), a pointer subtraction CBMC does not fold, so the result
// Reference::parse matches on is a symbolic Ok/Err merge and the drop glue explosion described
// above sets in (no verdict at 16 GB / 150 s per configuration).  Measured, documented, not claimed.

#[kani::proof]
#[kani::unwind(3)]
fn c01_a4_twin_must_fail() {
    let c = CONFIGS[4];
    let (kinds, new_len) = new_kinds(c);
    let new_toks = build_tokens(&kinds);
    let stream = TokenStream::new_with_change(&new_toks[..new_len], TokenChange::new(c.ds..c.de, c.ins)).advance(c.p);
    let r = Reference::<Leaf>::parse(None, stream);
    let ok = r.is_ok();
    std::mem::forget(r);
    assert!(!ok, "twin: reachable end of harness (expected to FAIL)");
}
