// Harnesses for lsp4spl/src/document.rs  (properties C08; shared oracle used by C15).
// This file is appended to a scratch copy of the repo file as
//   #[cfg(kani)] mod __verif { use super::*; <this file> }
// so every call below reaches the REAL private functions of document.rs.
//
// Oracle = the LSP text model, written over bytes and independent of char_indices():
//   * lines end at "\n"; a "\r" directly before it belongs to the line break
//   * `character` counts UTF-16 code units
//   * `character` past the end of a line's content  => end of that line's content
//   * `line` past the last line                      => end of text
//   * a ranged change replaces [offset(start), offset(end)); a range-less change replaces all
//   * changes of one notification apply in order, each to the result of its predecessor
// Outside the claim (assumed away, listed in evidence): a lone "\r" used as a line break,
// positions pointing into the middle of a surrogate pair, inverted ranges (start > end).

use lsp_types::{Position, Range as LspRange, TextDocumentContentChangeEvent};

/// UTF-16 code units contributed by the UTF-8 byte `b` (continuation bytes contribute 0).
pub fn u16_units(b: u8) -> u32 {
    if b < 0x80 {
        1
    } else if b < 0xC0 {
        0
    } else if b < 0xF0 {
        1
    } else {
        2
    }
}

/// Symbolic valid UTF-8 text of symbolic length <= N living in `buf`.
pub fn sym_text<const N: usize>(buf: &[u8; N]) -> &str {
    let len: usize = kani::any();
    kani::assume(len <= N);
    let r = std::str::from_utf8(&buf[..len]);
    kani::assume(r.is_ok());
    let s = r.unwrap();
    // outside the claim: lone CR as a line terminator
    let b = s.as_bytes();
    let mut i = 0;
    while i < b.len() {
        if b[i] == b'\r' {
            kani::assume(i + 1 < b.len() && b[i + 1] == b'\n');
        }
        i += 1;
    }
    s
}

/// LSP reference: byte offset addressed by (line, character); None when the position
/// points into the middle of a surrogate pair (outside the claim).
pub fn ref_offset(line: u32, character: u32, text: &str) -> Option<usize> {
    ref_offset_b(line, character, text.as_bytes())
}

pub fn ref_offset_b(line: u32, character: u32, b: &[u8]) -> Option<usize> {
    let n = b.len();
    let mut i = 0usize;
    let mut cur = 0u32;
    // advance to the start of the requested line
    while cur < line {
        let mut j = i;
        while j < n && b[j] != b'\n' {
            j += 1;
        }
        if j >= n {
            return Some(n); // line past the last line => end of text
        }
        i = j + 1;
        cur += 1;
    }
    let mut col = 0u32;
    while i < n {
        let c = b[i];
        if c == b'\n' {
            return Some(i);
        }
        if c == b'\r' && i + 1 < n && b[i + 1] == b'\n' {
            return Some(i);
        }
        if c < 0x80 || c >= 0xC0 {
            // start of a character
            if col == character {
                return Some(i);
            }
            if col > character {
                return None;
            }
            col += u16_units(c);
        }
        i += 1;
    }
    if col > character {
        None
    } else {
        Some(n)
    }
}

/// LSP reference: position of byte offset `idx` (idx on a char boundary, <= len).
pub fn ref_position(idx: usize, text: &str) -> (u32, u32) {
    let b = text.as_bytes();
    let mut line = 0u32;
    let mut col = 0u32;
    let mut i = 0usize;
    while i < idx && i < b.len() {
        if b[i] == b'\n' {
            line += 1;
            col = 0;
        } else {
            col += u16_units(b[i]);
        }
        i += 1;
    }
    (line, col)
}

pub fn is_boundary(idx: usize, text: &str) -> bool {
    let b = text.as_bytes();
    idx == b.len() || (idx < b.len() && (b[idx] < 0x80 || b[idx] >= 0xC0))
}

pub fn in_crlf(idx: usize, text: &str) -> bool {
    let b = text.as_bytes();
    idx >= 1 && idx < b.len() && b[idx] == b'\n' && b[idx - 1] == b'\r'
}

pub fn has_astral_before(idx: usize, text: &str) -> bool {
    let b = text.as_bytes();
    let mut i = 0;
    let mut r = false;
    while i < idx && i < b.len() {
        if b[i] >= 0xF0 {
            r = true;
        }
        i += 1;
    }
    r
}

pub fn sym_pos(max_line: u32, max_char: u32) -> Position {
    let line: u32 = kani::any();
    let character: u32 = kani::any();
    kani::assume(line <= max_line && character <= max_char);
    Position { line, character }
}

// ---------------------------------------------------------------------------
// P1  get_insertion_index == LSP reference
// ---------------------------------------------------------------------------
fn p1<const N: usize>() {
    let buf: [u8; N] = kani::any();
    let text = sym_text(&buf);
    let pos = sym_pos(N as u32 + 1, N as u32 + 2);
    let want = ref_offset(pos.line, pos.character, text);
    kani::cover!(want.is_some() && has_astral_before(want.unwrap(), text), "astral char before position");
    kani::cover!(text.len() >= 3 && pos.line == 0 && ref_offset(0, u32::MAX, text) != Some(text.len()) && pos.character as usize > text.len(), "column past end of a non-last line");
    kani::cover!(pos.line >= 2 && want == Some(text.len()), "line past the last line");
    kani::cover!(text.len() >= 2 && text.as_bytes()[0] == b'\r', "CRLF present");
    kani::cover!(want.is_none(), "position inside a surrogate pair (not compared)");
    let got = get_insertion_index(&pos, text);
    // always: a usable insertion index
    assert!(got <= text.len(), "C08/P1 index beyond text");
    assert!(is_boundary(got, text), "C08/P1 index not on a char boundary");
    if let Some(w) = want {
        assert!(got == w, "C08/P1 get_insertion_index != LSP offset");
    }
}

#[kani::proof]
#[kani::unwind(7)]
fn c08_p1_q() {
    p1::<5>()
}

#[kani::proof]
#[kani::unwind(14)]
fn c08_p1_t() {
    p1::<12>()
}

// ---------------------------------------------------------------------------
// P1b  as_index_range(range) == ref_offset(start)..ref_offset(end)   (the conversion every ranged
//      content change goes through), for ordered AND inverted position pairs
// ---------------------------------------------------------------------------
fn p1b<const N: usize>() {
    let buf: [u8; N] = kani::any();
    let text = sym_text(&buf);
    let start = sym_pos(N as u32 + 1, N as u32 + 2);
    let end = sym_pos(N as u32 + 1, N as u32 + 2);
    let s = ref_offset(start.line, start.character, text);
    let e = ref_offset(end.line, end.character, text);
    kani::cover!(s.is_some() && e.is_some() && s.unwrap() < e.unwrap() && start.line < end.line, "range spanning a line break");
    kani::cover!(s.is_some() && e.is_some() && has_astral_before(e.unwrap(), text) && s.unwrap() < e.unwrap(), "astral char inside or before the range");
    let r = as_index_range(&LspRange { start, end }, text);
    assert!(r.start <= text.len() && r.end <= text.len(), "C08/P1b range beyond text");
    if let (Some(s), Some(e)) = (s, e) {
        assert!(r.start == s && r.end == e, "C08/P1b as_index_range != (LSP offset of start)..(LSP offset of end)");
    }
}

#[kani::proof]
#[kani::unwind(6)]
fn c08_p1b_q() {
    p1b::<4>()
}

#[kani::proof]
#[kani::unwind(10)]
fn c08_p1b_t() {
    p1b::<8>()
}

// ---------------------------------------------------------------------------
// P2  as_position == LSP reference, and get_insertion_index(as_position(i)) == i
// ---------------------------------------------------------------------------
fn p2<const N: usize>() {
    let buf: [u8; N] = kani::any();
    let text = sym_text(&buf);
    let idx: usize = kani::any();
    kani::assume(idx <= N + 2);
    kani::cover!(idx <= text.len() && is_boundary(idx, text) && has_astral_before(idx, text), "astral char before index");
    kani::cover!(idx > text.len(), "index beyond text");
    kani::cover!(idx == text.len() && idx >= 2 && text.as_bytes()[idx - 1] == b'\n', "index after trailing newline");
    let p = as_position(idx, text);
    if idx <= text.len() {
        kani::assume(is_boundary(idx, text));
        kani::assume(!in_crlf(idx, text));
        let (l, c) = ref_position(idx, text);
        assert!(p.line == l && p.character == c, "C08/P2 as_position != LSP position");
        let back = get_insertion_index(&p, text);
        assert!(back == idx, "C08/P2 position round trip does not address the same offset");
    } else {
        // out of bounds => last possible position
        let (l, c) = ref_position(text.len(), text);
        assert!(p.line == l && p.character == c, "C08/P2 out-of-bounds index must clamp to the end");
    }
    // as_pos_range is the pair of two as_position calls
    let r = as_pos_range(&(0..idx), text);
    assert!(r.start.line == 0 && r.start.character == 0 && r.end == p, "C08/P2 as_pos_range");
}

#[kani::proof]
#[kani::unwind(7)]
fn c08_p2_q() {
    p2::<5>()
}

#[kani::proof]
#[kani::unwind(14)]
fn c08_p2_t() {
    p2::<12>()
}

// ---------------------------------------------------------------------------
// P2r  round trip alone, on texts that MAY contain a lone CR (no LSP reference is used here, so the
//      question how a lone CR counts does not arise): whatever position the server reports for an
//      offset, sending it back addresses that offset
// ---------------------------------------------------------------------------
fn p2r<const N: usize>() {
    let buf: [u8; N] = kani::any();
    let len: usize = kani::any();
    kani::assume(len <= N);
    let r = std::str::from_utf8(&buf[..len]);
    kani::assume(r.is_ok());
    let text = r.unwrap();
    let idx: usize = kani::any();
    kani::assume(idx <= text.len() && is_boundary(idx, text) && !in_crlf(idx, text));
    kani::cover!(idx >= 2 && text.as_bytes()[0] == b'\r' && text.as_bytes()[1] != b'\n', "lone CR in front of the offset");
    let p = as_position(idx, text);
    let back = get_insertion_index(&p, text);
    assert!(back == idx, "C08/P2r a reported position sent back must address the same offset");
}

#[kani::proof]
#[kani::unwind(6)]
fn c08_p2r_q() {
    p2r::<4>()
}

#[kani::proof]
#[kani::unwind(10)]
fn c08_p2r_t() {
    p2r::<8>()
}

// ---------------------------------------------------------------------------
// P3  to_text_changes for ONE content change, folded the way AnalyzedSource::update folds it (lib.rs:77)
//
// Cost cut (measured, DESIGN 1.1): with a symbolic text the real to_text_changes
// (Vec<ContentChange>::into_iter().map().collect() + String::replace_range) does not finish even for
// 1 byte of text (488 k symex steps, > 15 min).  Position conversion on arbitrary text is decided
// by P1/P2; P3 therefore runs on a handful of CONCRETE texts that contain every character class
// (ASCII, 2-byte, astral, LF, CRLF, empty) and keep everything else symbolic: the kind of the
// change (ranged / range-less), all positions (also overshooting), the inserted string.
// ---------------------------------------------------------------------------
/// Symbolic choice of the inserted string: "", "x", LF or U+1F600.
/// All four are slices of ONE literal: a symbolic choice between distinct string literals makes
/// CBMC's memcpy model return arbitrary bytes for `str::to_string` (spurious counterexample that did
/// not replay natively - DESIGN 1.4); a symbolic slice of a single object is modelled exactly.
fn sym_insert() -> &'static str {
    const POOL: &str = "x\n\u{1F600}";
    let k: u8 = kani::any();
    kani::assume(k < 4);
    let (a, b) = match k {
        0 => (0, 0),
        1 => (0, 1),
        2 => (1, 2),
        _ => (2, 6),
    };
    &POOL[a..b]
}

pub fn bytes_eq(a: &[u8], b: &[u8]) -> bool {
    if a.len() != b.len() {
        return false;
    }
    let mut i = 0;
    while i < a.len() {
        if a[i] != b[i] {
            return false;
        }
        i += 1;
    }
    true
}

pub const CAP: usize = 24;

/// reference: replace [s,e) of `text` by `ins`
pub fn ref_splice(text: &[u8], s: usize, e: usize, ins: &[u8], out: &mut [u8; CAP]) -> usize {
    let mut k = 0;
    let mut i = 0;
    while i < s {
        out[k] = text[i];
        k += 1;
        i += 1;
    }
    let mut j = 0;
    while j < ins.len() {
        out[k] = ins[j];
        k += 1;
        j += 1;
    }
    let mut i = e;
    while i < text.len() {
        out[k] = text[i];
        k += 1;
        i += 1;
    }
    k
}

/// Folds the TextChanges returned by the REAL to_text_changes the way AnalyzedSource::update
/// does (lib.rs: `acc.text.replace_range(change.to_range(), &change.text)`), with an explicit
/// splice; the preconditions of String::replace_range (ordered range inside the text, on char
/// boundaries - it panics otherwise, which would kill the broker task) are asserted instead.
pub fn apply_real(text: &str, changes: Vec<TextDocumentContentChangeEvent>, out: &mut [u8; CAP]) -> usize {
    // the server's String gets spare capacity so that growing it does not reallocate: a moved heap
    // object makes every later access a case split over objects in CBMC (two-change batches then
    // exceed 30 GB); capacity is not observable by to_text_changes
    let mut server_text = String::with_capacity(CAP);
    server_text.push_str(text);
    let tcs = to_text_changes(changes, server_text);
    // (how many TextChanges the conversion yields is its own business: only the resulting text is compared)
    let mut cur = [0u8; CAP];
    let mut cl = 0;
    while cl < text.len() {
        cur[cl] = text.as_bytes()[cl];
        cl += 1;
    }
    let mut k = 0;
    while k < tcs.len() {
        let c = &tcs[k];
        let (s, e) = (c.range.start, c.range.end);
        assert!(s <= e && e <= cl, "C08 TextChange range must be ordered and inside the text (replace_range would panic)");
        assert!(boundary_b(s, &cur[..cl]) && boundary_b(e, &cur[..cl]), "C08 TextChange range must lie on char boundaries (replace_range would panic)");
        let nl = ref_splice(&cur[..cl], s, e, c.text.as_bytes(), out);
        let mut i = 0;
        while i < nl {
            cur[i] = out[i];
            i += 1;
        }
        cl = nl;
        k += 1;
    }
    let mut i = 0;
    while i < cl {
        out[i] = cur[i];
        i += 1;
    }
    std::mem::forget(tcs);
    cl
}

fn boundary_b(idx: usize, b: &[u8]) -> bool {
    idx == b.len() || (idx < b.len() && (b[idx] < 0x80 || b[idx] >= 0xC0))
}

/// one symbolic content change against the client's current text `cur[..cl]`;
/// applies it to the client's text (reference) and returns the event sent to the server
fn sym_change(cur: &mut [u8; CAP], cl: &mut usize, max_line: u32, max_char: u32, flags: &mut [bool; 4]) -> TextDocumentContentChangeEvent {
    let has_range: bool = kani::any();
    let ins = sym_insert();
    let (range, s, e) = if has_range {
        let start = sym_pos(max_line, max_char);
        let end = sym_pos(max_line, max_char);
        // LSP precondition: start <= end
        kani::assume(start.line < end.line || (start.line == end.line && start.character <= end.character));
        let s = ref_offset_b(start.line, start.character, &cur[..*cl]);
        let e = ref_offset_b(end.line, end.character, &cur[..*cl]);
        kani::assume(s.is_some() && e.is_some());
        (Some(LspRange { start, end }), s.unwrap(), e.unwrap())
    } else {
        (None, 0, *cl)
    };
    flags[0] = has_range;
    flags[1] = (e - s) != ins.len(); // changes the length of the text
    flags[2] = s < e;
    flags[3] = ins.len() == 4;
    let mut out = [0u8; CAP];
    let nl = ref_splice(&cur[..*cl], s, e, ins.as_bytes(), &mut out);
    let mut i = 0;
    while i < nl {
        cur[i] = out[i];
        i += 1;
    }
    *cl = nl;
    TextDocumentContentChangeEvent {
        range,
        range_length: None,
        text: ins.to_string(),
    }
}

fn load(text: &str, cur: &mut [u8; CAP]) -> usize {
    let mut cl = 0;
    while cl < text.len() {
        cur[cl] = text.as_bytes()[cl];
        cl += 1;
    }
    cl
}

fn finish(text: &'static str, changes: Vec<TextDocumentContentChangeEvent>, cur: &[u8; CAP], cl: usize) {
    let mut got = [0u8; CAP];
    let gl = apply_real(text, changes, &mut got);
    assert!(bytes_eq(&got[..gl], &cur[..cl]), "C08 server text != client text after the notification");
}

/// P3: one fully symbolic content change (ranged or range-less)
fn one_change(text: &'static str) -> [bool; 4] {
    let mut cur = [0u8; CAP];
    let mut cl = load(text, &mut cur);
    let mut f = [false; 4];
    let c1 = sym_change(&mut cur, &mut cl, 3, 5, &mut f);
    finish(text, vec![c1], &cur, cl);
    f
}

pub const TEXT_A: &str = "a\u{1F600}\nb"; // ASCII, astral, LF
pub const TEXT_B: &str = "\u{e9}\r\nx\n"; // 2-byte char, CRLF, trailing newline
pub const TEXT_C: &str = ""; // empty document
pub const TEXT_D: &str = "a\n"; // smallest non-empty document: cheap enough that a counterexample can always be replayed

#[kani::proof]
#[kani::unwind(14)]
fn c08_p3_one_change_a() {
    let f = one_change(TEXT_A);
    kani::cover!(!f[0], "single full-text replacement of a non-empty text");
    kani::cover!(f[0] && f[2] && f[3], "non-empty range replaced by an astral char");
}

#[kani::proof]
#[kani::unwind(14)]
fn c08_p3_one_change_b() {
    let f = one_change(TEXT_B);
    kani::cover!(f[0] && f[2] && !f[1], "range replaced by a string of the same length");
}

#[kani::proof]
#[kani::unwind(9)]
fn c08_p3_one_change_d() {
    let f = one_change(TEXT_D);
    kani::cover!(!f[0] && f[1], "full-text replacement that changes the length");
    kani::cover!(f[0] && f[2], "ranged replacement of a non-empty range");
}

#[kani::proof]
#[kani::unwind(14)]
fn c08_p3_one_change_c() {
    let f = one_change(TEXT_C);
    kani::cover!(f[0] && f[3], "astral char inserted into the empty document at an overshooting position");
}

// Two changes in ONE notification (the second relative to the result of the first) were tried in
// seven reductions - down to a concrete text, a concrete first change and only the positions of the
// second change symbolic, and a deletion-only batch without any heap string - and every one exhausted 30 GB in CBMC's propositional reduction (the
// second iteration of the real closure works on heap objects that have been moved by the first).
// Batches are therefore OUTSIDE this claim; see DESIGN (C08, "what is not decided").

// ---------------------------------------------------------------------------
// vacuity twin: must come back FAILED
// ---------------------------------------------------------------------------
#[kani::proof]
#[kani::unwind(6)]
fn c08_twin_must_fail() {
    let buf: [u8; 4] = kani::any();
    let text = sym_text(&buf);
    let pos = sym_pos(5, 6);
    let got = get_insertion_index(&pos, text);
    let p = as_position(got, text);
    assert!(!(got <= text.len() && p.line <= 5), "twin: reachable end of harness (expected to FAIL)");
}
