#!/bin/bash
# Native demonstration of known finding C15/decl_modifier_units against the real code, in a scratch worktree of /repo
# (removed afterwards).  Exit 0 = the finding reproduces (the test FAILS on this tree); exit 1 = it no longer does.
W=$(mktemp -d /tmp/kf-c15-XXXXXX)
git -C /repo worktree add -q --detach "$W" HEAD
trap 'git -C /repo worktree remove --force "$W" 2>/dev/null; rm -rf "$W"' EXIT
cat "$(dirname "$0")/demo_test.rs" >> "$W/lsp4spl/src/features/semantic_tokens.rs"
cd "$W" && CARGO_NET_OFFLINE=true cargo test -p lsp4spl --offline c15_known_decl_modifier 2>&1 | grep -E "declaration modifier|test result|panicked" | head -5
[ "${PIPESTATUS[0]}" -ne 0 ] && { echo "REPRODUCED: known finding C15/decl_modifier_units"; exit 0; }
echo "NOT REPRODUCED (fixed?)"; exit 1
