
#[cfg(test)]
mod c15_known_decl_modifier {
    // Native demonstration of the known finding `decl_modifier_units` (property C15) through the real broker:
    // the `declaration` modifier (bit 0) must be set on the declaring occurrence of `a` and `main`.
    use super::semantic_tokens;
    use crate::features::tests::test_feature;
    use lsp_types::{PartialResultParams, SemanticTokensParams, TextDocumentIdentifier, Url, WorkDoneProgressParams};

    #[tokio::test]
    async fn c15_known_decl_modifier_on_declaring_occurrence() {
        let text = "type a = int;\nproc main() {}\n";
        let uri = Url::parse("file:///test.spl").unwrap();
        let params = SemanticTokensParams {
            text_document: TextDocumentIdentifier { uri: uri.clone() },
            partial_result_params: PartialResultParams::default(),
            work_done_progress_params: WorkDoneProgressParams::default(),
        };
        let result = test_feature(semantic_tokens, uri, text, params).await.unwrap().expect("document is open");
        let (mut line, mut start) = (0, 0);
        let decoded: Vec<(u32, u32, u32, u32, u32)> = result.data.iter().map(|t| {
            if t.delta_line > 0 { line += t.delta_line; start = t.delta_start; } else { start += t.delta_start; }
            (line, start, t.length, t.token_type, t.token_modifiers_bitset)
        }).collect();
        let a = decoded.iter().find(|t| (t.0, t.1, t.2) == (0, 5, 1)).expect("token `a`");
        let main = decoded.iter().find(|t| (t.0, t.1, t.2) == (1, 5, 4)).expect("token `main`");
        assert_eq!((a.4 & 1, main.4 & 1), (1, 1), "declaration modifier missing on a declaring occurrence: {decoded:?}");
    }
}
